"""Generic check flow for properties judged on traces of autog.Layout."""
import json
import os
import time

import core
from core import HarnessError, log


class Result:
    def __init__(self):
        self.violations = []   # dicts: case, prop, clauses, where, msg
        self.stats = dict(calls=0, returns=0, judged=0, nontriv=0, viol=0, panics=0, aborts=0, unjudged=0)
        self.states = 0
        self.transitions = 0
        self.cases = {}        # id -> case
        self.aborts = []
        self.ncases = 0


def shard_groups(cases, nshards):
    """split a case list into shards, keeping relational groups together and in order"""
    shards = [[] for _ in range(nshards)]
    sizes = [0] * nshards
    cur_g, cur = None, []

    def flush():
        if not cur:
            return
        k = sizes.index(min(sizes))
        shards[k].extend(cur)
        sizes[k] += len(cur)

    block = []
    for c in cases:
        g = c.get("g", 0)
        if g != 0 and g == cur_g:
            cur.append(c)
            continue
        flush()
        cur_g, cur = (g if g != 0 else None), [c]
    flush()
    return [s for s in shards if s]


PROC_OFFSET = 10000000
HEAD_RE = None


def merge_process_traces(d, procs):
    """trace.ndjson + trace1.ndjson ... -> trace.ndjson, group by group: the records of process k follow those of
    process k-1 within each relational group, with case ids shifted by k*PROC_OFFSET and rel "ref" turned into "same".
    Odd-numbered processes ran the groups in REVERSE order, so that every group is compared across two different process
    histories (what ran before it): a result that depends on earlier calls differs between the two."""
    import re
    head = re.compile(r'^\{"ev":"(\w+)","case":(-?\d+),"g":(-?\d+)')
    per = []
    for k in range(procs):
        path = os.path.join(d, "trace.ndjson" if k == 0 else "trace%d.ndjson" % k)
        groups = []   # list of (g, [lines])
        with open(path) as fh:
            for line in fh:
                m = head.match(line)
                if not m:
                    raise HarnessError("unparsable trace line in " + path)
                ev, cid, g = m.group(1), int(m.group(2)), int(m.group(3))
                if k > 0:
                    line = '{"ev":"%s","case":%d,"g":%d' % (ev, cid + k * PROC_OFFSET, g) + line[m.end():]
                    if ev == "Call":
                        line = line.replace('"rel":"ref"', '"rel":"same"', 1)
                if ev == "Call" and (not groups or g == 0 or groups[-1][0] != g):
                    groups.append((g, []))
                groups[-1][1].append(line)
        if k % 2 == 1:
            groups.reverse()      # odd processes ran the groups in reverse order (see run_layout_cases)
        per.append(groups)
    n = len(per[0])
    if any(len(p) != n for p in per):
        raise HarnessError("process traces have different group structure in " + d)
    with open(os.path.join(d, "trace.ndjson"), "w") as out:
        for i in range(n):
            for k in range(procs):
                out.writelines(per[k][i][1])


def run_layout_cases(work, driver, props, cases, tag="main", budget_ms=2500, mem_mb=400, nshards=None,
                     keep_all_cases=False, post_trace=None, procs=1, preshard=False):
    """cases: list of case dicts (ids are assigned here). Returns Result.  Every case is tagged with the shard (= process)
    it ran in (`_sh`); with preshard=True the cases are put into the shards their `_sh` names, in list order, so that a
    second pass gives every case the process history it had in the first."""
    res = Result()
    for i, c in enumerate(cases):
        c["case"] = i + 1
    res.ncases = len(cases)
    if not cases:
        return res
    nshards = nshards or min(core.NCPU, max(1, len(cases) // 200))
    if preshard:
        ks = sorted({c["_sh"] for c in cases})
        shards = [[c for c in cases if c["_sh"] == k] for k in ks]
    else:
        shards = shard_groups(cases, nshards)
        for k, sh in enumerate(shards):
            for c in sh:
                c["_sh"] = k
    byid = {c["case"]: c for c in cases}
    dirs = []
    for k, sh in enumerate(shards):
        d = work.sub("%s-%02d" % (tag, k))
        with open(os.path.join(d, "cases.ndjson"), "w") as fh:
            for c in sh:
                fh.write(json.dumps(c, separators=(",", ":")) + "\n")
        dirs.append(d)

    t0 = time.time()

    def run(d):
        ab = core.run_cases(driver, "run", os.path.join(d, "cases.ndjson"), os.path.join(d, "trace.ndjson"),
                            budget_ms=budget_ms, mem_mb=mem_mb)
        for k in range(1, procs):
            # the same cases again in a fresh process - odd processes with the groups in reverse order, so that each group
            # has another history behind it; merged group by group into one trace
            cpath = os.path.join(d, "cases.ndjson")
            if k % 2 == 1:
                with open(cpath) as fh:
                    lines = fh.readlines()
                blocks = []
                for ln in lines:
                    g = json.loads(ln).get("g", 0)
                    if blocks and g != 0 and blocks[-1][0] == g:
                        blocks[-1][1].append(ln)
                    else:
                        blocks.append((g, [ln]))
                cpath = os.path.join(d, "cases_rev.ndjson")
                with open(cpath, "w") as fh:
                    for g, ls_ in reversed(blocks):
                        fh.writelines(ls_)
            ab += core.run_cases(driver, "run", cpath, os.path.join(d, "trace%d.ndjson" % k),
                                 budget_ms=budget_ms, mem_mb=mem_mb)
        if procs > 1:
            merge_process_traces(d, procs)
        return ab
    for ab in core.pmap(run, dirs):
        res.aborts.extend(ab)
    t1 = time.time()
    if post_trace:
        for d in dirs:
            post_trace(os.path.join(d, "trace.ndjson"))

    def val(d):
        return core.validate_trace(work, d, os.path.join(d, "trace.ndjson"), props)
    outs = core.pmap(val, dirs)
    t2 = time.time()
    log("[%s] %d cases in %d shards: driver %.1fs, TLC %.1fs" % (tag, len(cases), len(dirs), t1 - t0, t2 - t1))
    for viols, stats, (gen, dist) in outs:
        for k in res.stats:
            res.stats[k] += stats.get(k, 0)
        res.states += dist
        res.transitions += gen
        for v in viols:
            cid = v[0] % PROC_OFFSET
            clauses = v[1]
            res.violations.append(dict(case=cid, clauses=clauses, where=v[2] if len(v) > 2 else None,
                                       msg=v[3] if len(v) > 3 else None))
    extra_reps = sum(1 for c in cases if c.get("reps"))
    if res.stats["calls"] < len(cases) * procs or (not extra_reps and res.stats["calls"] != len(cases) * procs):
        raise HarnessError("trace validation consumed %d calls, %d cases were issued" % (res.stats["calls"], len(cases)))
    res.cases = byid
    return res


def pipeline_diag(work, driver, cases, limit=400, tag="pipe"):
    """Layer-2 conformance (DRIFT diagnostics, never verdicts): the first `limit` cases are run again with the stage
    hook on and every stage snapshot is validated by PipelineTrace.tla against the phase contracts of Pipeline.tla.
    Returns a model-style dict for the evidence."""
    import subprocess
    # every second case with a recording monitor, so that the reported crossing number can be compared with the recorded order
    # a sample spread over the WHOLE case list (every family of the check gets its share, not only the first one), small inputs
    # first in line because the layer-3 models are evaluated on components up to a size bound;
    # spline cases only where the router cannot hang (known findings of C01), and always with the monitor (it carries the corridors)
    import random as _random
    # (the pipeline specification models the WMedian ordering phase: calls without an ordering phase are outside it)
    pool = [c for c in cases if c.get("p3") != "noop" and c["n"] + len(c["edges"]) <= 40 and (c.get("p5") != "splines" or not core.case_facts(c)["_degenerate_corridor_or_bk"])]
    if len(pool) > limit:
        pool = _random.Random(20260926).sample(pool, limit)
    sub = [dict(c, stages=1, reps=0, case=i + 1, mon=1 if (i % 2 == 0 or c.get("p5") == "splines") else c.get("mon", 0))
           for i, c in enumerate(pool)]
    if not sub:
        return None
    d = work.sub(tag)
    with open(os.path.join(d, "cases.ndjson"), "w") as fh:
        for c in sub:
            fh.write(json.dumps(c, separators=(",", ":")) + "\n")
    core.run_cases(driver, "run", os.path.join(d, "cases.ndjson"), os.path.join(d, "trace.ndjson"))
    cfg = os.path.join(d, "P.cfg")
    with open(cfg, "w") as fh:
        fh.write("SPECIFICATION PSpec\nCONSTANTS NSMaxNodes = 12 NSMaxEdges = 16 CBMaxNodes = 14 CBMaxEdges = 30 POMaxNodes = 24 WMMaxNodes = 10 WMMaxEdges = 14 NPMaxAux = 30 BKMaxNodes = 24 ACCUMULATE = FALSE RESET_TREE = TRUE\nPOSTCONDITION TraceAccepted\nCHECK_DEADLOCK FALSE\n")
    cmd = core.java_cmd(work, d) + ["-workers", "1", "-metadir", os.path.join(d, "meta"), "-noGenerateSpecTE", "-config", cfg,
                                    os.path.join(work.specdir, "PipelineTrace.tla")]
    t0 = time.time()
    p = subprocess.run(cmd, cwd=d, env=dict(os.environ, VERIF_TRACE=os.path.join(d, "trace.ndjson")), capture_output=True, text=True, timeout=1800)
    m = core.TLC_STATES_RE.search(p.stdout)
    stats, drift = None, {}
    byid = {c["case"]: c for c in sub}
    shown = 0
    for line in p.stdout.splitlines():
        if line.startswith('"STATS '):
            stats = json.loads(json.loads(line)[6:])
        elif line.startswith('"DRIFT '):
            v = json.loads(json.loads(line)[6:])
            for b in v[3]:
                drift[b] = drift.get(b, 0) + 1
            if shown < 5:
                shown += 1
                c = byid[v[0]]
                print("DRIFT spec=Pipeline.tla stage=%d contract=%s component=%d case=%s" % (
                    v[2], ",".join(v[3]), v[1], json.dumps({k: c[k] for k in ("edges", "p1", "p2", "p4", "p5")}, separators=(",", ":"))[:300]))
    if p.returncode != 0 or m is None or stats is None or "No error has been found" not in p.stdout:
        log("[pipe] layer-2 trace validation failed (diagnostic only):\n" + core._tlc_tail(p.stdout + p.stderr)[-1500:])
        return None
    if drift:
        log("[pipe] DRIFT (diagnostic, not a verdict): %s" % json.dumps(drift, sort_keys=True))
    return dict(name="PipelineTrace.tla: %d stage snapshots of %d calls against the phase contracts of Pipeline.tla (layer 2) and %d phase-1 / layering / helper-node / ordering / coordinate / route / crossing-count / collect results predicted exactly by CycleBreakOps, NetSimplexOps, LongestPathOps, BreakAll, WMedianOps, PositionOps, NSPositionOps, BKOps, RouteOps (routes and spline corridors), OrderCrossings, Collect (layer 3), %d drifting" % (stats["stages"], stats["calls"], stats["l3predictions"], stats["drift"]),
                generated=int(m.group(1)), distinct=int(m.group(2)), wall=time.time() - t0, ok=True, drift=drift)


def t1_model(work, tier):
    """the composition theorem T1 of Pipeline.tla at small scope"""
    n = 3 if tier == "quick" else 4
    r = core.run_tlc(work, "T1", "Pipeline.tla", "SPECIFICATION TSpec\nCONSTANTS TN = %d TM = %d\nINVARIANTS T1_EdgeBagIdentity T1_InstancesPreserved\nCHECK_DEADLOCK FALSE\n" % (n, n),
                     workers=core.NCPU, tag="t1", timeout=3000)
    if not r["ok"]:
        raise HarnessError("Pipeline.tla: composition theorem T1 fails at small scope:\n" + r["out"][-2500:])
    return dict(name="Pipeline.tla T1 (edge-list surgery is the identity on the edge bag), all lists with <= %d nodes/edges x all reversal sets x all feasible layerings" % n,
                generated=r["generated"], distinct=r["distinct"], wall=r["wall"], ok=True)


def t2_model(work, tier):
    """the composition theorem T2 of Compose.tla at small scope: phase contracts (layer 2) imply C03 and C04 (layer 1)"""
    m = 2 if tier == "quick" else 3
    r = core.run_tlc(work, "Compose", "Compose.tla",
                     'SPECIFICATION Spec\nCONSTANTS CN = 3 CM = %d Widths = {0, 2} Spacings = {0, 1} Props = {"C03", "C04"}\n'
                     'INVARIANTS ConstructionMeetsContract4 T2_C03 T2_C04\nCHECK_DEADLOCK FALSE\n' % m, workers=core.NCPU, tag="t2", timeout=3000)
    if not r["ok"]:
        raise HarnessError("Compose.tla: composition theorem T2 (contracts => C03, C04) fails at small scope:\n" + r["out"][-2500:])
    return dict(name="Compose.tla T2 (every drawing the phase contracts allow satisfies C03_Fail = C04_Fail = {}): connected lists with <= 3 nodes / %d edges x reversal sets x "
                     "feasible layerings x layer orders incl. helper nodes x widths {0,2} x 3 height patterns x NodeSpacing {0,1} x slack {0,1} per node" % m,
                generated=r["generated"], distinct=r["distinct"], wall=r["wall"], ok=True)


def mech_model(work, name, spec, cfg, what, workers=None, timeout=3000):
    """an exhaustive layer-3 mechanism model; its failure means the model (or a constant) was changed: exit 2"""
    r = core.run_tlc(work, name, spec, cfg, workers=workers or core.NCPU, tag="mech-" + name, timeout=timeout)
    if not r["ok"]:
        raise HarnessError("%s fails its own invariants at small scope - the model is wrong or was changed:\n%s" % (spec, r["out"][-2500:]))
    return dict(name=what, generated=r["generated"], distinct=r["distinct"], wall=r["wall"], ok=True)


def cyclebreak_model(work, tier):
    n, m = (4, 5) if tier == "quick" else (5, 6)
    return mech_model(work, "CycleBreak", "CycleBreak.tla",
                      "SPECIFICATION Spec\nCONSTANTS NN = %d MM = %d\nINVARIANTS ResultAcyclic GreedyPlacesAll DagUntouched DfsIrredundant ListsStayConsistent OnlyFlips\nCHECK_DEADLOCK FALSE\n" % (n, m),
                      "CycleBreak.tla: both breakers on every connected loop-free multigraph with <= %d nodes / %d edges (ResultAcyclic, GreedyPlacesAll, DagUntouched, DfsIrredundant, ListsStayConsistent, OnlyFlips)" % (n, m))


def netsimplex_model(work, tier):
    n, m = (4, 5) if tier == "quick" else (5, 6)
    return mech_model(work, "NetSimplex", "NetSimplex.tla",
                      ("SPECIFICATION Spec\nCONSTANTS NN = %d MM = %d Thoroughness = 28 Parallel = TRUE ACCUMULATE = FALSE RESET_TREE = TRUE Weights = {1} Deltas = {1} Mode = \"V\"\n"
                       "INVARIANTS FeasibleInv TreeIsSpanning CutValuesRight NoPanic Optimal NotStuck Contiguous LowestIsZero\nPROPERTIES ObjectiveNeverIncreases\nCHECK_DEADLOCK FALSE\n") % (n, m),
                      "NetSimplex.tla: every connected DAG multigraph with <= %d nodes / %d edges, one loop iteration per step (FeasibleInv, TreeIsSpanning, CutValuesRight, NoPanic, Optimal vs brute force, NotStuck, Contiguous, ObjectiveNeverIncreases)" % (n, m))


def longestpath_model(work, tier):
    n, m = (4, 5) if tier == "quick" else (5, 5)      # (5, 6): 67 M states, 24 min on 14 workers, no error
    return mech_model(work, "LongestPath", "LongestPath.tla",
                      "SPECIFICATION Spec\nCONSTANTS NN = %d MM = %d\nINVARIANTS MemoIsFinal RunningMax HeightsRight BandsMinimal FeasibleLP OrderIrrelevant\nCHECK_DEADLOCK FALSE\n" % (n, m),
                      "LongestPath.tla: the memoised longest-path search on every connected DAG multigraph with <= %d nodes / %d edges x every visit order of the nodes, one root visit per step (MemoIsFinal, RunningMax, HeightsRight, BandsMinimal, FeasibleLP, OrderIrrelevant)" % (n, m))


def netsimplex_h_model(work, tier):
    """the network simplex as the positioner runs it: per-edge weights and minimum lengths, horizontal balancing"""
    n, m, ws, ds = (3, 3, "{0, 1, 2}", "{0, 1, 2}") if tier == "quick" else (4, 4, "{0, 1}", "{0, 2}")
    return mech_model(work, "NetSimplexH", "NetSimplex.tla",
                      ("SPECIFICATION Spec\nCONSTANTS NN = %d MM = %d Thoroughness = 28 Parallel = TRUE ACCUMULATE = FALSE RESET_TREE = TRUE Weights = %s Deltas = %s Mode = \"H\"\n"
                       "INVARIANTS FeasibleInv TreeIsSpanning CutValuesRight NoPanic Optimal NotStuck LowestIsZero\nPROPERTIES ObjectiveNeverIncreases HBalanceKeepsObjective\nCHECK_DEADLOCK FALSE\n") % (n, m, ws, ds),
                      "NetSimplex.tla, positioner mode: every connected DAG multigraph with <= %d nodes / %d edges x every assignment of weights %s and minimum lengths %s, hbalance (FeasibleInv, TreeIsSpanning, CutValuesRight, NoPanic, Optimal vs brute force, NotStuck, LowestIsZero, ObjectiveNeverIncreases, HBalanceKeepsObjective)" % (n, m, ws, ds),
                      workers=12)


def nspos_model(work, tier):
    """the network-simplex positioner (auxiliary graph + weighted network simplex + hbalance) on every small layered graph"""
    k = 4 if tier == "quick" else 6
    return mech_model(work, "NSPosition", "Position.tla",
                      ("SPECIFICATION Spec\nCONSTANTS Layers = 3 MaxPer = 2 MaxNodes = %d Widths = {0, 3, 6} MaxIn = 2 NS = 1 Tall = FALSE LS = 1\n"
                       "INVARIANTS NSPosFinishes NSPosTreeRight NSPosFeasible NSPosBalanceKeepsObjective NSPosSeparates NSPosSeparatesExactly NSPosLeftmostZero NSPosStraightensChains\nCHECK_DEADLOCK FALSE\n") % k,
                      "Position.tla + NSPositionOps: the network-simplex positioner on every proper layered graph with 3 layers, <= %d nodes, widths {0,3,6}: auxiliary graph, weighted network simplex, hbalance (NSPosFinishes, NSPosTreeRight, NSPosFeasible, NSPosBalanceKeepsObjective, NSPosSeparates, NSPosSeparatesExactly, NSPosLeftmostZero, NSPosStraightensChains)" % k,
                      workers=15)


def bk_model(work, tier):
    """the Brandes-Koepf positioner (BKOps) on every small layered graph with 4 layers (markConflicts needs 4)"""
    k = 5 if tier == "quick" else 6
    return mech_model(work, "BK", "Position.tla",
                      ("SPECIFICATION Spec\nCONSTANTS Layers = 4 MaxPer = 2 MaxNodes = %d Widths = {0, 3} MaxIn = 2 NS = 1 Tall = FALSE LS = 1\n"
                       "INVARIANTS BKBlocksAreChains BKEveryNodeInOneBlock BKAlignmentsDoNotCross BKUniformSeparated BKNonNegative BKNoStartInsideNeighbour\nCHECK_DEADLOCK FALSE\n") % k,
                      "Position.tla + BKOps: the Brandes-Koepf positioner (conflict marking, 4 x vertical alignment + compaction, balancing, verification, final adjustment) on every proper layered graph with 4 layers, <= %d nodes, widths {0,3} (BKBlocksAreChains, BKEveryNodeInOneBlock, BKAlignmentsDoNotCross, BKUniformSeparated, BKNonNegative, BKNoStartInsideNeighbour)" % k,
                      workers=15)


def spline_corridor_model(work, tier):
    """buildRects of the spline router on every small positioned graph: well-formed corridors in the non-degenerate class"""
    per, k = (2, 5) if tier == "quick" else (3, 5)
    return mech_model(work, "SplineCorridor", "Position.tla",
                      ("SPECIFICATION Spec\nCONSTANTS Layers = 3 MaxPer = %d MaxNodes = %d Widths = {0, 3, 6} MaxIn = 2 NS = 1 Tall = TRUE LS = 2\n"
                       "INVARIANTS SplineCorridorsOK\nCHECK_DEADLOCK FALSE\n") % (per, k),
                      "Position.tla + RouteOps!BuildRects6: the spline router's corridors on every proper layered graph with 3 layers, <= %d per layer, <= %d nodes, widths {0,3,6}, heights by width, positioned by VAlign / PackRight / SinkColoring: CorridorOps!WellFormed and end points inside when sizes and spacings are positive, bands uniform and helper nodes not adjacent (SplineCorridorsOK)" % (per, k),
                      workers=12)


def position_model(work, tier):
    k = 4 if tier == "quick" else 5
    return mech_model(work, "Position", "Position.tla",
                      ("SPECIFICATION Spec\nCONSTANTS Layers = 3 MaxPer = 2 MaxNodes = %d Widths = {0, 2, 6} MaxIn = 2 NS = 1 Tall = FALSE LS = 1\n"
                       "INVARIANTS SinkTerminates SinkSeparates SinkKeepsOrder ExactSpacing VAlignCentres PackRightAligns VAlignLeftmostZero\nCHECK_DEADLOCK FALSE\n") % k,
                      "Position.tla: SinkColoring / VAlign / PackRight on every proper layered graph with 3 layers, <= %d nodes, widths {0,2,6} (SinkTerminates, SinkSeparates, SinkKeepsOrder, ExactSpacing, VAlignCentres, PackRightAligns)" % k,
                      workers=4)


def wmedian_model(work, tier, family):
    if family == "trees":
        n = 5 if tier == "quick" else 6
        return mech_model(work, "WMedianTrees", "WMedian.tla",
                          'SPECIFICATION Spec\nCONSTANTS Family = "trees" NT = %d MaxPer = 1 MaxEdges = 1\nINVARIANTS TreePlanar PermutationPerLayer ReportedIsActual NotWorseThanInitial\nCHECK_DEADLOCK FALSE\n' % n,
                          "WMedian.tla: the ordering phase on every rooted tree with %d nodes x both orientations x every edge order, layered by depth (TreePlanar, PermutationPerLayer, ReportedIsActual)" % n,
                          workers=8)
    per, me = (2, 4) if tier == "quick" else (3, 4)
    return mech_model(work, "WMedianLayered", "WMedian.tla",
                      'SPECIFICATION Spec\nCONSTANTS Family = "layered" NT = 2 MaxPer = %d MaxEdges = %d\nINVARIANTS PermutationPerLayer ReportedIsActual NotWorseThanInitial\nCHECK_DEADLOCK FALSE\n' % (per, me),
                      "WMedian.tla: the ordering phase on every proper 3-layer graph with <= %d nodes per layer and <= %d edges (PermutationPerLayer, ReportedIsActual, NotWorseThanInitial)" % (per, me),
                      workers=8)


def merge_results(a, b):
    """b's case ids are shifted behind a's"""
    off = max(a.cases) if a.cases else 0
    for cid, c in b.cases.items():
        c["case"] = cid + off
        a.cases[cid + off] = c
    for v in b.violations:
        a.violations.append(dict(v, case=v["case"] + off))
    for k in a.stats:
        a.stats[k] += b.stats[k]
    a.states += b.states
    a.transitions += b.transitions
    a.aborts.extend(b.aborts)
    a.ncases += b.ncases
    return a


def report(prop, res, known, tier, seed, extra_cov, assumptions, t0, rule, samples_extra=None, level_models=None):
    """match violations against known findings, write replay files and evidence, print verdict lines.
    Returns the exit code."""
    new_viol = []
    known_hits = {}
    l3drift = {}
    os.makedirs(os.path.join(core.OUT, "replays"), exist_ok=True)
    for v in res.violations:
        case = res.cases[v["case"]]
        for pc in v["clauses"]:
            p, clause = pc[0], pc[1]
            if p != prop:
                continue
            if clause.startswith("HARNESS_"):
                raise HarnessError("%s on case %s" % (clause, json.dumps(core.case_signature(case), separators=(",", ":"))))
            if clause.startswith("L3_"):
                # a mechanism-level observation (hook report) differs from the model: diagnostic, never a verdict
                l3drift[clause] = l3drift.get(clause, 0) + 1
                continue
            f = core.match_known(known, p, clause, case, v.get("where"))
            if f is not None:
                known_hits.setdefault(f["id"], [f, 0])[1] += 1
                continue
            new_viol.append((v, clause, case))
    if l3drift:
        print("[api] DRIFT (diagnostic, not a verdict): %s" % json.dumps(l3drift, sort_keys=True))
    byclause = {}
    for v, clause, case in new_viol:
        k = "%s/%s/%s/%s/%s" % (clause, case.get("p1"), case.get("p2"), case.get("p4"), case.get("p5")) if os.environ.get("VERIF_BREAKDOWN") else clause
        byclause[k] = byclause.get(k, 0) + 1
    if byclause:
        log("[%s] violations by clause: %s" % (prop, json.dumps(byclause, sort_keys=True)))
    log("[%s] stats: %s states=%d" % (prop, json.dumps(res.stats, sort_keys=True), res.states))
    ab = {}
    for a in res.aborts:
        k = "%s@%s" % (a["kind"], a["where"])
        ab[k] = ab.get(k, 0) + 1
    if ab:
        log("[%s] process aborts (judged by C01): %s" % (prop, json.dumps(ab, sort_keys=True)))
    for fid, (f, n) in sorted(known_hits.items()):
        print("KNOWN-FINDING: property=%s %s (%s; observed %d times in this run)" % (prop, f["what"], fid, n))
    seen_sig = set()
    nrep = 0
    for v, clause, case in new_viol:
        sig = core.sig_hash([core.case_signature(case), clause])
        if sig in seen_sig:
            continue
        seen_sig.add(sig)
        nrep += 1
        if nrep > 25:
            continue
        path = os.path.join(core.OUT, "replays", "%s-%s.json" % (prop, sig))
        with open(path, "w") as fh:
            json.dump({"property": prop, "kind": "layout", "clause": clause, "where": v.get("where"), "msg": v.get("msg"),
                       "case": {k: x for k, x in case.items() if k != "case"},
                       "group": [{k: x for k, x in c.items() if k != "case"} for c in res.cases.values()
                                 if case.get("g") and c.get("g") == case["g"]]}, fh, indent=1)
            fh.write("\n")
        print("VIOLATION property=%s replay=%s" % (prop, path))
        log("   clause=%s case=%s" % (clause, json.dumps(core.case_signature(case), separators=(",", ":"))[:400]))
    if nrep > 25:
        log("   ... %d further distinct violating cases not written out" % (nrep - 25))

    samples = []
    for cid in list(res.cases)[:3]:
        samples.append({k: x for k, x in res.cases[cid].items() if k in ("n", "edges", "p1", "p2", "p4", "p5", "ns", "ls", "fixed", "smap", "virt", "rel")})
    for v, clause, case in new_viol[:5]:
        samples.append({"violating": core.case_signature(case), "clause": clause})
    if samples_extra:
        samples.extend(samples_extra)
    cov = {
        "states": max(1, res.states + sum(m.get("distinct", 0) for m in (level_models or []))),
        "transitions": max(1, res.transitions + sum(m.get("generated", 0) for m in (level_models or []))),
        "traces_validated_against_impl": res.stats["returns"] + res.stats["panics"] + res.stats["aborts"],
        "evaluations": res.ncases,
        "distinct_nontrivial": res.stats["nontriv"],
        "judged": res.stats["judged"],
        "not_judged": res.stats["unjudged"],
        "panics": res.stats["panics"],
        "process_aborts": res.stats["aborts"],
        "rule": rule,
        "samples": samples,
        "known_findings_observed": {fid: n for fid, (f, n) in known_hits.items()},
        "violating_cases": len(seen_sig),
    }
    if level_models:
        cov["models"] = [{k: m[k] for k in ("name", "generated", "distinct", "wall", "ok") if k in m} for m in level_models]
    cov.update(extra_cov or {})
    core.write_evidence(prop, tier, seed, cov, assumptions, time.time() - t0, len(seen_sig))
    return 1 if seen_sig else 0
