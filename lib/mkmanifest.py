#!/usr/bin/env python3
"""Regenerates /verif/MANIFEST.json from the table below (run after adding a check)."""
import json
import os
import sys

sys.path.insert(0, os.path.dirname(os.path.abspath(__file__)))
VERIF = os.path.dirname(os.path.dirname(os.path.abspath(__file__)))

TRACE = ("TLA+ layer-1 specification (spec/api/AutogApi.tla) as oracle: every recorded Call/Return/Panic/Abort of the real "
         "autog.Layout is replayed through ApiTrace.tla by TLC (trace validation, code -> spec); inputs enumerated exhaustively "
         "by TLC from Inputs.tla (spec -> code) plus seeded random families")

CHECKS = {
    # id: (technique, level text, level note, design ref)
    "C01": ("TLC trace validation: after Call only Return is a behaviour of AutogApi (Panic only for the documented panics, Abort never, Return within BudgetMs); isolated restartable workers with wall-clock and heap watchdog",
            "Every case runs in a disposable worker process; a panic is recovered and recorded, a stack overflow / OOM / hang is observed from outside and recorded as Abort attributed to the last Call without completion; TLC accepts the trace only if every Call is followed by a Return within the spec's budget. Inputs: TLC-enumerated canonical multigraphs x random points of the full option grid incl. node-ID alphabets, random multigraphs up to 40 nodes, size sweeps (chains to 1000/3000, ladders with > 64 layers, 90-150 node graphs). " + TRACE,
            "Budgets are spec constants (BudgetMs) >= 9x the slowest measured run; a watchdog overrun only counts after the case overran again alone with 3x the budget. Known findings (spline router) are listed in known_findings.json by call site.", "8/C01"),
    "C02": ("TLC trace validation of real Layout runs against the layer-1 predicate C02 (OutNodes, OutEdges, OutSizes, LoopsUnrouted); TLC-enumerated canonical edge lists",
            "Every canonical multigraph edge list up to the bound (E(4,4) quick, E(4,5) thorough) and seeded random larger ones are run through the real Layout under a rotating option grid; TLC decides on every Return record whether node set, edge bag, directions and sizes equal the input's. " + TRACE,
            "Exhaustive only below the stated bound; beyond it a seeded sample. Trusts TLC, the Json module and the driver's faithful logging.", "8/C02"),
    "C03": ("TLC trace validation against C03 (BandGap, EdgeSpansBands, ArrowIffUp, DagAllDown)",
            "Band structure and edge direction are recomputed by TLC from the returned Y/H/ArrowHeadStart of every run over the exhaustive and random input families x breakers x layerers x positioners x heights x LayerSpacing. " + TRACE,
            "LayerSpacing > 0 only (as the property states). Exhaustive below the bound, sampled beyond.", "8/C03"),
    "C04": ("TLC trace validation against C04 (FiniteNonNeg, NoOverlap, BandSpacing, ComponentSpacing)",
            "Pairwise rectangle disjointness, in-band spacing and component spacing are evaluated by TLC on every returned layout of the size-aware positioners over heterogeneous sizes (zero, very wide, odd) and NodeSpacing {0,1,10}. " + TRACE,
            "Integer sizes and spacings (exact dyadic coordinates); Brandes-Koepf excluded as the property states; the network-simplex positioner is exercised up to 36 nodes+edges (it needs minutes beyond).", "8/C04"),
    "C05": ("TLC trace validation against C05 (Anchors incl. arrow end at ToID, FinitePoints)",
            "First/last route point against bottom-centre/top-centre of the upper/lower endpoint and arrow flag against FromID/ToID, exact on the 1/64 grid, for every routed edge of every run. " + TRACE,
            "Judged for edges whose endpoints lie in different bands (otherwise C03 reports). Spline routing only on the share of inputs its router survives (known findings of C01).", "8/C05"),
    "C06": ("TLC trace validation against C06 (per-style shape predicates, one helper node per bend)",
            "Straight = 2 points; polyline = one bend per intermediate band inside the band's y-range, monotone, not strictly inside a node, helper node at each bend when requested; ortho = axis-parallel segments; splines = 4k points joined end to end. " + TRACE,
            "Size-aware positioners only (as stated).", "8/C06"),
    "C07": ("TLC trace validation against the history invariants Deterministic and InputUntouched of AutogApi over groups of repeated calls (same process and fresh process)",
            "Each case is executed 3x (quick) / 6x (thorough) in one process and again in a second fresh process; the merged trace must be a behaviour of AutogApi, whose Return of a repetition is enabled only if node order, bit-exact coordinates, routes and flags equal the reference's and the caller's edge slice and size map are unchanged. " + TRACE,
            "Map-iteration nondeterminism shows only on some runs: a sample of schedules, not all. Random greedy excluded as the property states.", "8/C07"),
    "C08": ("TLC trace validation against the history invariant RenameEquivariant (bags of bit-exact node rectangles and routes modulo the renaming)",
            "Each canonical input is run with plain names and with adversarial injective renamings (helper alphabets V<k>/NE<k>, empty string, 300-char, Unicode/control); TLC compares the drawings modulo the renaming. " + TRACE,
            "Judged only when the reference is stable (rule 8b: mismatching groups are re-run with 20 more repetitions of the reference).", "8/C08"),
    "C09": ("TLC trace validation against the history invariants ComponentIndependent and SideBySide over groups {solo runs of the parts, run on the interleaved union}",
            "Disjoint unions of 2-3 connected parts with order-preserving interleavings; TLC requires every part of the union drawing to equal the solo drawing up to one horizontal translation and the component extents to be NodeSpacing apart. " + TRACE,
            "Parts from E(3,3)/E(4,4)/random; sampled pairs, not all pairs. Judged only when the solo runs are stable.", "8/C09"),
    "C10": ("TLC trace validation against C10 (Optimal via brute-force MinTotalSpan for n<=5 and LP-duality certificate checked in TLA+ beyond; Contiguous)",
            "Total span recomputed by TLC from band indices and compared with the optimum over all feasible layerings: brute force inside TLC for n<=5, otherwise an untrusted primal/dual certificate attached by the driver and verified by the TLA+ predicate CertOK (feasibility, flow balance, strong duality). Runs that ended on the iteration cap (hook) are not judged. " + TRACE,
            "The certificate solver is untrusted (a bad certificate is exit 2). Weights and minimum lengths are 1 in phase 2.", "8/C10"),
    "C11": ("TLC trace validation against C11 (BandIsHeightToSink, BandCount) with GraphOps!HeightToSink on the drawn orientation",
            "Band-from-bottom of every node compared by TLC with the longest path to a sink in the drawn (cycle-broken) orientation, per component. " + TRACE,
            "Judged when the drawn orientation is acyclic and LayerSpacing > 0 (bands recovered from Y).", "8/C11"),
    "C12": ("TLC trace validation against C12 (sum of reported 'crossings' monitor events = crossings recounted by TLC on the returned polylines)",
            "TLC recounts strict inversions between adjacent bands from node and bend x-coordinates of the returned drawing and compares with the monitor's reported count, incl. ladders with 66-130 layers. " + TRACE,
            "Simple graphs, size-aware positioners, NodeSpacing > 0, Polyline (as stated); judged when every polyline has one point per band it touches.", "8/C12"),
    "C13": ("TLC trace validation against C13 (tree => zero drawn crossings); all rooted trees n<=6 x orientations x edge orders generated by TLC",
            "Every rooted tree on 4-6 nodes in both orientations and every edge order (TLC-generated) plus random trees to 60 nodes; TLC counts the crossings of each returned drawing. " + TRACE,
            "Exhaustive for n <= 6, sampled beyond.", "8/C13"),
    "C14": ("TLC trace validation against C14 (Irredundant via reachability in the drawn orientation, DagUntouched)",
            "For every reversed edge TLC checks that un-reversing it alone closes a directed cycle among the edges as drawn (multigraph-aware), and that acyclic inputs come back without reversed edge, over all cyclic/acyclic lists of the exhaustive family and random multigraphs. " + TRACE,
            "Exhaustive below the bound, sampled beyond.", "8/C14"),
    "C16": ("TLC trace validation against C16 (BandExtent, LeftmostAtZero, MidpointsCoincide, RightEndsCoincide)",
            "Exact arithmetic identities of the two simple positioners evaluated by TLC on every band (helper nodes included) of every connected input of the families x widths x NodeSpacing. " + TRACE,
            "Connected inputs with virtual-node output (as stated).", "8/C16"),
    "C15": ("TLC exhaustive interleaving check of Monitor.tla's concurrent configuration over the shared-state table extracted from the code (go/types), plus TLC trace validation of concurrent runs against the sequential reference (SequentialEquivalent) under the Go race detector",
            "Static: every package-level variable and every write to it is extracted from the non-test sources and becomes the constant ExtraShared of Monitor.tla; TLC explores all interleavings of 3-4 processes inside Layout (NoRace, Scoped, CleanWhenIdle) and, as a non-vacuity check, finds the race that exists when monitors are supplied. Dynamic: the driver built with -race runs each case alone and then under 2/8/64 goroutines x GOMAXPROCS 1/4/16; every concurrent result must be bit-exactly equal to the sequential one (TLC, AutogApi C15) and any race-detector report is a violation. " + TRACE,
            "A model-only race is a candidate, the verdict comes from the dynamic run (rule 2). The race detector sees the schedules that ran, not all schedules.", "8/C15"),
    "C18": ("TLC model check of Monitor.tla (all call histories up to the bound: Scoped, CleanWhenIdle, Complete), TLC-generated histories replayed on the real Layout and validated by MonitorTrace.tla (spec -> code -> spec), plus trace validation of MonitorTransparent",
            "TLC enumerates every history of <= 3 (quick) / 4 (thorough) calls x {with, without monitor} x {ok, empty-graph panic, malformed-edge panic} together with the delivery the model predicts; the driver replays each on the real Layout with a recording monitor per call and logs receivers and the package globals after every call; MonitorTrace.tla accepts the trace only if Monitor!CallOp explains every observation. Transparency: layouts with and without monitor must be bit-exactly equal. " + TRACE,
            "The package globals are read through an overlay shim. Histories are sequential (concurrency is C15).", "8/C18"),
    "C19": ("TLC trace validation of geom.Shortest against the square-root-free geodesic criterion IsGeodesic (CorridorOps.tla), itself model-checked at small scope (Unique, NoShorterInside); corridors generated exhaustively by TLC from Corridor.tla; the implementation-shaped model of geom.Shortest (FunnelOps.tla: triangulation, dual graph, crossed diagonals, funnel over the fixed-capacity deque) is model-checked exhaustively on small corridors (Funnel.tla: IsShortest, Returns, TriangulationTiles, DualIsTree, DequeFits) and predicts every recorded triangulation and path exactly (layer 3, DRIFT diagnostics)",
            "Every well-formed corridor of 1-3 (thorough: 4) rectangles on a 5-column grid x lattice/half-lattice start and end points, plus seeded random corridors of up to 12 rectangles, is run through the real geom.Shortest; TLC checks end-to-start order, exact containment (integer door-crossing test) and tautness, which in a simple polygon characterises the unique shortest path. The criterion is validated by TLC itself: exactly one candidate vertex sequence satisfies it for every corridor and end-point pair of the bounded model, and no inside sequence is provably shorter. " + TRACE,
            "Integer coordinates (exact arithmetic); exhaustive below the bound, sampled beyond.", "8/C19"),
    "C20": ("TLC model check of the FitSpline recursion (SplineFit.tla: tiling, termination), replay of recorded Fit/Split hook events through the same step function, fixed-point containment predicate on recorded control points, and RootsOK on polynomials built from their roots by TLC (Solve.tla)",
            "Fit: for every C19 corridor whose path has >= 3 points the recursion events (hook) must replay through SplineFit!FitStep and tile the path, pieces must start/end at path points and join bit-exactly, and 65 fixed-point samples per piece must lie within the corridor grown by 0.05. Solve: 2578 polynomials generated by TLC from chosen roots (simple, double, triple, complex pairs, leading coefficients around the solver's epsilon); exact rational distances measured by the driver are judged by RootsOK with multiplicity-aware tolerances. " + TRACE,
            "Containment is sampled (65 points per piece, +0.005 rounding slack); numeric tolerances are spec constants. Known findings: repeated roots and near-epsilon leading coefficients of the root finder (explicit input lists).", "8/C20"),
    "C17": ("TLC trace validation against the history invariant ScaleEquivariant (bit-exact equality after dividing by the scale)",
            "Each case is run at scale 1 (3x) and at scales 2^k, k in -3..6; the driver divides the output by 2^k and TLC requires bit-exact equality of every coordinate and route point plus equal order and flags. " + TRACE,
            "Positioners and routers as stated by the property; judged only when the reference is stable.", "8/C17"),
}

L23 = ("; a sample of the same calls is recorded stage by stage (hook H1) and validated by PipelineTrace.tla: phase contracts (layer 2) and "
       "exact prediction of every phase's result by the implementation-shaped TLA+ models CycleBreakOps, NetSimplexOps, LongestPathOps, WMedianOps, "
       "PositionOps, NSPositionOps, BKOps, RouteOps (layer 3; deviations are DRIFT diagnostics, verdicts stay with layer 1)")
MODELS = {
    "C02": "TLC exhaustive: Pipeline.tla composition theorem T1 (edge-list surgery of the seven stages returns the input's edge bag)",
    "C03": "TLC exhaustive: Compose.tla composition theorem T2 (every drawing that the phase contracts of layer 2 allow satisfies C03_Fail = C04_Fail = {})",
    "C04": "TLC exhaustive: Compose.tla composition theorem T2 (phase contracts imply C03 and C04), Position.tla (SinkColoring / VAlign / PackRight on every small layered graph), Position.tla + NSPositionOps (the network-simplex positioner: auxiliary graph, weighted simplex, hbalance), NetSimplex.tla in positioner mode (weights, minimum lengths)",
    "C05": "TLC exhaustive: Position.tla + RouteOps!BuildRects6 (the spline router's corridors are well-formed in the non-degenerate class)",
    "C10": "TLC exhaustive: NetSimplex.tla (every connected DAG multigraph of the bound, one loop iteration per step: Feasible, TreeIsSpanning, CutValuesRight, Optimal vs brute force, Contiguous)",
    "C11": "TLC exhaustive: LongestPath.tla (every DAG of the bound x every visit order of the nodes)",
    "C12": "TLC exhaustive: WMedian.tla on every small 3-layer graph (PermutationPerLayer, ReportedIsActual)",
    "C13": "TLC exhaustive: WMedian.tla on every rooted tree of 5/6 nodes x orientation x edge order (TreePlanar), Position.tla + NSPositionOps",
    "C14": "TLC exhaustive: CycleBreak.tla (both breakers on every connected multigraph of the bound: ResultAcyclic, DfsIrredundant, DagUntouched)",
    "C16": "TLC exhaustive: Position.tla (ExactSpacing, VAlignCentres, PackRightAligns)",
    "C17": "TLC exhaustive: Position.tla + BKOps (the Brandes-Koepf positioner transcribed statement by statement)",
}
UNARY = ["C02", "C03", "C04", "C05", "C06", "C10", "C11", "C12", "C13", "C14", "C16"]
SLICE = "; every unary predicate is also judged on an all-options slice (random points of C01's whole option space)"

PENDING = {}


def main():
    props = [json.loads(l) for l in open(os.path.join(VERIF, "properties.jsonl"))]
    ids = [p["id"] for p in props]
    checks = []
    for pid in ids:
        if pid not in CHECKS:
            continue
        tech, text, note, ref = CHECKS[pid]
        if pid in MODELS:
            tech += "; " + MODELS[pid]
        if pid in UNARY:
            tech += SLICE
        if pid in UNARY or pid in ("C07", "C08", "C09", "C17"):
            tech += L23
        if pid == "C18":
            tech += "; Apalache: inductive invariant of the monitor life-cycle for histories of any length (MonitorInd.tla); TLC exhaustive: Position.tla + BKOps"
        checks.append({
            "property_id": pid,
            "quick_cmd": "./check %s quick" % pid,
            "thorough_cmd": "./check %s thorough" % pid,
            "evidence_file": "evidence/%s.json" % pid,
            "replay_cmd_template": "./check %s --replay {path}" % pid,
            "engine": "tlc",
            "level_claimed": {"category": "model_checking", "text": text, "design_ref": "DESIGN.md section " + ref},
            "level_note": note,
            "technique": tech,
        })
    na = [{"property_id": pid, "reason": PENDING.get(pid, "check not built yet in this round (see DESIGN.md section 9); not claimed until it is")}
          for pid in ids if pid not in CHECKS]
    hooks_commits = []
    hc = os.path.join(VERIF, "hooks_commits.txt")
    if os.path.exists(hc):
        hooks_commits = [l.split()[0] for l in open(hc) if l.strip() and not l.startswith("#")]
    man = {
        "version": 1,
        "setup_cmd": "./setup",
        "hooks": {
            "guard": "verif",
            "enable": "go build -tags verif -overlay <generated overlay.json> ./internal/zzverif/driver (done by every ./check run from /repo's working tree)",
            "baseline_off_cmd": "cd /repo && go test -vet=off -count=1 ./...",
            "source_commits": hooks_commits,
            "add_only": True,
        },
        "engines": [
            {"name": "tlc", "path": "/opt/veriftools/tla/tla2tools.jar", "serves_properties": [c["property_id"] for c in checks],
             "kind_free_text": "TLC 1.8.0: exhaustive model checking of the TLA+ specifications, input generation, and trace validation of recorded executions"},
            {"name": "driver", "path": "harness/driver", "serves_properties": [c["property_id"] for c in checks],
             "kind_free_text": "Go conformance driver injected into /repo's module with go build -overlay (nothing written to /repo); restartable isolated worker processes with watchdog"},
            {"name": "apalache", "path": "/opt/veriftools/apalache/bin/apalache-mc", "serves_properties": ["C18"],
             "kind_free_text": "Apalache 0.58.0: inductive invariant of the monitor life-cycle (MonitorInd.tla), histories of any length"},
            {"name": "go race detector", "path": "go build -race", "serves_properties": ["C15"],
             "kind_free_text": "the driver built with -race runs the concurrent batches; a race report is a violation (the TLA+ interleaving model over the extracted shared-state table only nominates candidates)"},
        ],
        "checks": checks,
        "not_applicable": na,
        "notes": "All checks: exit 0 held / exit 1 with VIOLATION lines / exit 2 infrastructure trouble. VERIF_SEED and VERIF_TIER are honoured. Known findings: known_findings.json.",
    }
    with open(os.path.join(VERIF, "MANIFEST.json"), "w") as fh:
        json.dump(man, fh, indent=1)
        fh.write("\n")


if __name__ == "__main__":
    main()
