#!/bin/bash
# Statement coverage of the library under the conformance runs: which code do the families of the quick checks never reach?
# Not a registered check.  Builds the driver with -cover in a scratch worktree (driver and shims copied in physically, because
# `go build -cover` cannot read overlay files), runs the given checks (default: all) with evidence sent to a scratch directory,
# and prints the per-package percentages and every function below 100 %.
#   lib/coverage.sh [Cxx ...]
set -e
export GOFLAGS=-mod=mod GOPROXY=off GOSUMDB=off GOTOOLCHAIN=local
V=$(cd "$(dirname "$0")/.." && pwd)
WT=/tmp/wt/cov; OUT=/tmp/cov-out; DATA=/tmp/cov-data
git -C /repo worktree remove --force $WT 2>/dev/null || true
rm -rf $WT $OUT $DATA; mkdir -p $OUT $DATA
git -C /repo worktree add -q --detach $WT HEAD
mkdir -p $WT/internal/zzverif/driver
cp $V/harness/driver/*.go $WT/internal/zzverif/driver/
for f in $V/harness/shims/*.go; do
  b=$(basename $f); pkg=$(echo "${b%__*}" | sed 's#__#/#g'); cp $f $WT/$pkg/zz_verif_${b##*__}
done
(cd $WT && go build -tags verif -cover -coverpkg=github.com/nulab/autog/... -o $OUT/driver-cover ./internal/zzverif/driver)
PROPS=${@:-C01 C02 C03 C04 C05 C06 C07 C08 C09 C10 C11 C12 C13 C14 C15 C16 C17 C18 C19 C20}
for p in $PROPS; do
  VERIF_DRIVER=$OUT/driver-cover GOCOVERDIR=$DATA VERIF_OUT=$OUT $V/check $p quick > $OUT/$p.txt 2>&1 || true
  echo "$p rc=$? $(tail -1 $OUT/$p.txt | cut -c1-100)"
done
cd $WT
go tool covdata percent -i=$DATA | grep -v zzverif
go tool covdata textfmt -i=$DATA -o $OUT/cover.txt
go tool cover -func=$OUT/cover.txt | grep -v zzverif | grep -v "100.0%" > $OUT/below100.txt || true
echo "functions below 100 %: $(wc -l < $OUT/below100.txt) (list: $OUT/below100.txt; annotated source: go tool cover -html=$OUT/cover.txt)"
cat $OUT/below100.txt
git -C /repo worktree remove --force $WT
