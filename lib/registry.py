"""property id -> check function(prop, tier, seed, replay) -> exit code"""
import layout_props
import rel_props

CHECKS = {}
for _p in layout_props.FAMILIES:
    CHECKS[_p] = layout_props.run_unary
for _p in rel_props.FAMILIES:
    CHECKS[_p] = rel_props.run_relational
