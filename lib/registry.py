"""property id -> check function(prop, tier, seed, replay) -> exit code"""
import layout_props

CHECKS = {}
for _p in layout_props.FAMILIES:
    CHECKS[_p] = layout_props.run_unary
