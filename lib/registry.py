"""property id -> check function(prop, tier, seed, replay) -> exit code"""
import layout_props
import rel_props

CHECKS = {}
for _p in layout_props.FAMILIES:
    CHECKS[_p] = layout_props.run_unary
for _p in rel_props.FAMILIES:
    CHECKS[_p] = rel_props.run_relational

import mon_props
CHECKS["C18"] = mon_props.c18_check
CHECKS["C15"] = mon_props.c15_check
import geom_props
CHECKS["C19"] = geom_props.c19_check
CHECKS["C20"] = geom_props.c20_check
