"""C19 (corridor shortest path) and C20 (spline fitter, root finder): the specifications spec/geom/{Corridor,
SplineFit,Solve}.tla, model-checked by TLC at small scope and used as generator (spec -> code) and as oracle
for the traces of the real geometry entry points (GeomTrace.tla, code -> spec)."""
import json
import os
import random
import subprocess
import time

import core
from core import HarnessError, log

CRIT_CFG = 'SPECIFICATION Spec\nCONSTANTS MaxRects = %d XMax = %d Heights = {1,2} Mode = "criterion"\nINVARIANTS Unique NoShorterInside\nCHECK_DEADLOCK FALSE\n'
FUN_CFG = ('SPECIFICATION Spec\nCONSTANTS MaxRects = %d XMax = %d Heights = %s XShift = %d YShift = %d\nINVARIANTS TriangulationTiles TriangleCount EveryPointCovered '
           'DualIsTree Returns EndToStart IsShortest DequeFits PolygonIsOutline CornersOnOutline\nCHECK_DEADLOCK FALSE\n')
FUN_GOAL_CFG = 'SPECIFICATION Spec\nCONSTANTS MaxRects = 3 XMax = 3 Heights = {2} XShift = 0 YShift = 0\nINVARIANTS %s\nCHECK_DEADLOCK FALSE\n'
FIT_CFG = 'SPECIFICATION FSpec\nCONSTANTS MaxPath = %d\nINVARIANTS NeverBad TilesWhenDone\nPROPERTIES Termination Decreases\nCHECK_DEADLOCK FALSE\n'
# GeomTrace extends three modules with constants: they are irrelevant for trace validation but must be bound
TRACE_CFG = 'SPECIFICATION TraceSpec\nCONSTANTS Props = {"%s"}\nPOSTCONDITION TraceAccepted\nCHECK_DEADLOCK FALSE\n'


def validate(work, d, trace_path, prop):
    cfg = os.path.join(d, "GeomTrace.cfg")
    with open(cfg, "w") as fh:
        fh.write(TRACE_CFG % prop)
    cmd = core.java_cmd(work, d) + ["-workers", "1", "-metadir", os.path.join(d, "meta"), "-noGenerateSpecTE",
                                    "-config", cfg, os.path.join(work.specdir, "GeomTrace.tla")]
    p = subprocess.run(cmd, cwd=d, env=dict(os.environ, VERIF_TRACE=trace_path), capture_output=True, text=True, timeout=3600)
    out = p.stdout
    viols, stats = [], None
    for line in out.splitlines():
        if line.startswith('"VIOL '):
            viols.append(json.loads(json.loads(line)[5:]))
        elif line.startswith('"STATS '):
            stats = json.loads(json.loads(line)[6:])
    m = core.TLC_STATES_RE.search(out)
    if p.returncode != 0 or "No error has been found" not in out or m is None or stats is None:
        raise HarnessError("TLC failed on %s:\n%s" % (trace_path, core._tlc_tail(out + p.stderr)))
    return viols, stats, (int(m.group(1)), int(m.group(2)))


def lattice(rect, den=1):
    L, T, R, B = rect
    return [(x, y) for x in range(L * den, R * den + 1) for y in range(T * den, B * den + 1)]


def corridor_cases(tier, rng, kind):
    """the families below, and every eighth of their members once more TRANSLATED: a door corner (where geodesics bend), a
    rectangle corner or an end point is moved to the origin - the zero value of the library's point type, which a map lookup
    or an uninitialised variable yields as well - or the corridor is moved to negative coordinates altogether"""
    trng = random.Random(rng.random())
    n = 0
    for c in _corridor_cases(tier, rng, kind):
        yield c
        n += 1
        if n % 8:
            continue
        rs = c["rects"]
        anchors = []
        for t in range(len(rs) - 1):
            a, b = max(rs[t][0], rs[t + 1][0]), min(rs[t][2], rs[t + 1][2])
            if rs[t][0] != rs[t + 1][0]:
                anchors.append((a, rs[t][3]))
            if rs[t][2] != rs[t + 1][2]:
                anchors.append((b, rs[t][3]))
        mode = trng.random()
        if anchors and mode < 0.6:
            ax, ay = trng.choice(anchors)
        elif mode < 0.75:
            r = trng.choice(rs)
            ax, ay = trng.choice([(r[0], r[1]), (r[2], r[1]), (r[0], r[3]), (r[2], r[3])])
        elif mode < 0.85:
            ax, ay = trng.choice([c["s"], c["e"]])
        else:
            ax, ay = rs[-1][2] + trng.randint(0, 5) * c["den"], rs[-1][3] + trng.randint(0, 5) * c["den"]
        if c["den"] not in (1, 2):
            # keep whole units whole (the exact layer-3 prediction applies to whole units on a decimal grid)
            ax, ay = ax - ax % c["den"], ay - ay % c["den"]
            if mode < 0.75 and (ax, ay) not in anchors:
                continue
        yield dict(c, rects=[[r[0] - ax, r[1] - ay, r[2] - ax, r[3] - ay] for r in rs], s=[c["s"][0] - ax, c["s"][1] - ay],
                   e=[c["e"][0] - ax, c["e"][1] - ay])


def _corridor_cases(tier, rng, kind):
    """every TLC-generated corridor x lattice start points of the first and end points of the last rectangle
    (all of them for small corridors, a sample otherwise), plus half-unit points (den = 2), plus random larger corridors"""
    cors = [c["rects"] for c in core.load_gen("COR3")]
    if tier == "thorough":
        cors += [c["rects"] for c in core.load_gen("COR4") if len(c["rects"]) == 4]
    per = 6 if tier == "quick" else 40
    for rs in cors:
        ss, es = lattice(rs[0]), lattice(rs[-1])
        pairs = [(s, e) for s in ss for e in es if s[1] <= e[1]]
        if len(pairs) > per:
            # always include the corner-to-corner and boundary pairs that the funnel special-cases, then a sample
            pick = rng.sample(pairs, per)
        else:
            pick = pairs
        for s, e in pick:
            yield {"kind": kind, "rects": rs, "s": list(s), "e": list(e), "den": 1}
        if rng.random() < (0.15 if tier == "quick" else 0.5):
            rs2 = [[2 * v for v in r] for r in rs]
            s = rng.choice(lattice(rs2[0]))
            e = rng.choice(lattice(rs2[-1]))
            if s[1] <= e[1]:
                yield {"kind": kind, "rects": rs2, "s": list(s), "e": list(e), "den": 2}
    # wide / narrow slot / wide corridors with layout-like dimensions (the rectangle around a helper node of a long edge
    # is a slot of about ten units between two rectangles as wide as the drawing): the path wraps the slot's corners and
    # the fitted curve has to squeeze through it
    for _ in range(2500 if tier == "quick" else 30000):
        W = rng.choice([200, 400, 600])
        k = rng.choice([3, 3, 5])
        rs, top = [], 0
        for i in range(k):
            h = rng.choice([20, 40, 80, 160])
            if i % 2 == 0:
                L, R = rng.randint(0, W // 10), W - rng.randint(0, W // 10)
            else:
                # strictly inside every wide rectangle, so that the doors have positive length
                L = rng.randint(W // 10 + 1, W - W // 10 - 18)
                R = L + rng.randint(6, 16)
            rs.append([L, top, R, top + h])
            top += h
        s = (rng.randint(rs[0][0], rs[0][2]), rng.choice([rs[0][1], rng.randint(rs[0][1], rs[0][3])]))
        e = (rng.randint(rs[-1][0], rs[-1][2]), rng.choice([rs[-1][3], rng.randint(rs[-1][1], rs[-1][3])]))
        yield {"kind": kind, "rects": rs, "s": list(s), "e": list(e), "den": 1}
    # grazing geodesics: the straight line from start to end passes a reflex corner on the outside by 0.1 .. 0.5 units, so
    # the shortest path bends there by a fraction of a degree and is barely longer than its chord (tenth-unit grid)
    for _ in range(2500 if tier == "quick" else 30000):
        k = rng.choice([2, 2, 3, 4])
        W = rng.choice([100, 200, 400, 600])
        rs, top = [], 0
        L, R = sorted(rng.sample(range(0, W + 1, 10), 2))
        for i in range(k):
            h = rng.choice([50, 100, 200, 300])
            rs.append([L, top, R, top + h])
            top += h
            for _try in range(50):
                L2, R2 = sorted(rng.sample(range(0, W + 1, 10), 2))
                if max(L, L2) + 10 <= min(R, R2) and (L2 != L or R2 != R):
                    L, R = L2, R2
                    break
        corners = []
        for t in range(k - 1):
            a, b = max(rs[t][0], rs[t + 1][0]), min(rs[t][2], rs[t + 1][2])
            if not a < b:
                corners = []
                break
            if rs[t][0] != rs[t + 1][0]:
                corners.append((a, rs[t][3], -1))
            if rs[t][2] != rs[t + 1][2]:
                corners.append((b, rs[t][3], +1))
        if not corners:
            continue
        cx, cy, side = rng.choice(corners)
        off = rng.choice([1, 2, 3, 5])                      # tenths of a unit, on the outside of the corner
        den = 10
        sx = rng.randint(rs[0][0] * den, rs[0][2] * den)
        sy = rng.randint(rs[0][1] * den, min(rs[0][3], cy - 1) * den) if cy > rs[0][1] else rs[0][1] * den
        px, py = cx * den + side * off, cy * den
        if py <= sy:
            continue
        ey = rng.randint(max(rs[-1][1] * den, py + 1), rs[-1][3] * den)
        ex = sx + (px - sx) * (ey - sy) // (py - sy)
        if not (rs[-1][0] * den <= ex <= rs[-1][2] * den):
            continue
        yield {"kind": kind, "rects": [[v * den for v in r] for r in rs], "s": [sx, sy], "e": [ex, ey], "den": den}
    # bulges: the corridor's left (or right) side swells over many rectangles in a strictly convex arc, so that the shortest
    # path from a point beside the first rectangle's far end to one beside the last winds around EVERY reflex corner of that
    # side: the funnel's chain on that side holds as many vertices as there are doors (long edges through many layers whose
    # helper nodes lie on an arc); also S-shapes (a left bulge followed by a right one)
    def profile(k):
        half = (k + 1) // 2
        up = sorted(rng.sample(range(3, 90), half - 1), reverse=True)
        down = sorted(rng.sample(range(3, 90), k - half), reverse=False)
        prof, v = [0], 0
        for d in up:
            v += d
            prof.append(v)
        for d in down:
            v -= d
            prof.append(v)
        lo = min(prof)
        return [x - lo for x in prof]
    for _ in range(600 if tier == "quick" else 8000):
        shape = rng.choice(["left", "right", "s"])
        k = rng.randint(5, 18)
        h = rng.choice([10, 20, 40])
        if shape == "s":
            k1 = rng.randint(4, 9)
            k2 = rng.randint(4, 9)
            p1, p2 = profile(k1), profile(k2)
            width = max(p1) + max(p2) + rng.randint(20, 80)
            rs = [[p1[i], i * h, max(p1) + width, (i + 1) * h] for i in range(k1)]
            rs += [[0, (k1 + i) * h, max(p1) + width - p2[i], (k1 + i + 1) * h] for i in range(k2)]
        else:
            pr = profile(k)
            width = max(pr) + rng.randint(10, 120)
            if shape == "left":
                rs = [[pr[i], i * h, width, (i + 1) * h] for i in range(k)]
            else:
                rs = [[0, i * h, width - pr[i], (i + 1) * h] for i in range(k)]
        # end points hugging the bulging side of the first / last rectangle, or anywhere
        def pick(r, near):
            if near == "left":
                x = rng.randint(r[0], min(r[2], r[0] + 10))
            elif near == "right":
                x = rng.randint(max(r[0], r[2] - 10), r[2])
            else:
                x = rng.randint(r[0], r[2])
            return x
        near = shape if shape != "s" else rng.choice(["left", "right", "any"])
        if rng.random() < 0.25:
            near = "any"
        s_ = (pick(rs[0], near), rng.choice([rs[0][1], rng.randint(rs[0][1], rs[0][3])]))
        e_ = (pick(rs[-1], near if shape != "s" else rng.choice(["left", "right", "any"])), rng.choice([rs[-1][3], rng.randint(rs[-1][1], rs[-1][3])]))
        yield {"kind": kind, "rects": rs, "s": list(s_), "e": list(e_), "den": 1}
    # nearly aligned edges: consecutive rectangles whose left or right sides differ by 1-2 thousandths of a unit (the width a
    # size option with three decimals produces) - where a tolerance in the triangulation or in an orientation test would treat
    # them as aligned although the door it creates is real.  Thousandth-unit grid, corridors 0.05-0.3 units wide.
    for _ in range(1500 if tier == "quick" else 20000):
        k = rng.randint(2, 6)
        den = 1000
        L, R = sorted(rng.sample(range(0, 301), 2))
        if R - L < 20:
            R = L + 20
        rs, top = [], 0
        for i in range(k):
            h = rng.randint(10, 80)
            rs.append([L, top, R, top + h])
            top += h
            mode = rng.random()
            if mode < 0.6:
                # nudge one or both sides by 1-2 units
                L2 = L + rng.choice([0, 0, 1, -1, 2, -2])
                R2 = R + rng.choice([0, 0, 1, -1, 2, -2])
            else:
                L2, R2 = sorted(rng.sample(range(0, 301), 2))
            if L2 < 0 or max(L, L2) + 5 > min(R, R2) or (L2 == L and R2 == R):
                L2, R2 = L, R + 1
            L, R = L2, R2
        s = (rng.randint(rs[0][0], rs[0][2]), rng.randint(rs[0][1], rs[0][3]))
        e = (rng.randint(rs[-1][0], rs[-1][2]), rng.randint(rs[-1][1], rs[-1][3]))
        yield {"kind": kind, "rects": rs, "s": list(s), "e": list(e), "den": den}
    # fins: a rectangle that is narrower than BOTH its neighbours on one side (an inward step of the wall), passed closely by a
    # long straight stretch of the geodesic that does not bend at it: start next to that wall in the first rectangle, then the
    # fin, then a rectangle reaching far back under it, then a short last rectangle entered through a narrow door far from the
    # end point, so that the geodesic's only bend is at that door.  A curve fitted to the stretch bulges towards the fin; whether
    # it pokes into the step depends on the slide factor the fitter ends up with.  Mirrored at random.
    for _ in range(4000 if tier == "quick" else 40000):
        f = rng.randint(4, 30)
        r0 = [0, 0, f + rng.randint(3, 12), rng.randint(30, 110)]
        r1 = [f, r0[3], f + rng.randint(60, 200), r0[3] + rng.randint(40, 110)]
        r2 = [-rng.randint(10, 70), r1[3], f + rng.randint(12, 45), r1[3] + rng.randint(40, 110)]
        r3 = [r2[2] - rng.randint(2, 9), r2[3], r2[2] + rng.randint(40, 160), r2[3] + rng.randint(8, 40)]
        rs = [r0, r1, r2, r3]
        if rng.random() < 0.35:
            # one more rectangle on top, as wide as the fin's neighbours
            h = rng.randint(20, 60)
            rs = [[-rng.randint(0, 30), -h, r0[2] + rng.randint(0, 40), 0]] + rs
        s_ = [rng.randint(rs[0][0], min(rs[0][0] + 3, rs[0][2])) if len(rs) == 4 else rng.randint(0, 3), rs[0][1]]
        e_ = [rng.randint(r3[0] + (r3[2] - r3[0]) // 2, r3[2]), r3[3]]
        if len(rs) == 5 and not (rs[0][0] <= s_[0] <= rs[0][2]):
            s_[0] = rs[0][0]
        if rng.random() < 0.5:
            rs = [[-r[2], r[1], -r[0], r[3]] for r in rs]
            s_, e_ = [-s_[0], s_[1]], [-e_[0], e_[1]]
        yield {"kind": kind, "rects": rs, "s": s_, "e": e_, "den": 1}
    # end points ON a line through two corners of the corridor (where the triangulation's diagonals run), on a tenth-unit grid
    # and translated at random: exactly on the diagonal in exact arithmetic, a rounding error beside it in float64 - the
    # point can then be inside BOTH triangles without being collinear with their common side (the unchanged library took the
    # path around the far corner of the last rectangle on 1 of 523 709 thorough cases before repair c19-diag, section 17.5)
    for _ in range(6000 if tier == "quick" else 60000):
        k = rng.choice([2, 2, 3])
        rs, top = [], 0
        L, R = sorted(rng.sample(range(0, 21), 2))
        for i in range(k):
            h = rng.randint(2, 10)
            rs.append([L * 10, top * 10, R * 10, (top + h) * 10])
            top += h
            for _try in range(50):
                L2, R2 = sorted(rng.sample(range(0, 21), 2))
                if max(L, L2) < min(R, R2):
                    L, R = L2, R2
                    break
        corners = sorted({(x, y) for r in rs for x in (r[0], r[2]) for y in (r[1], r[3])})
        last = rs[-1]
        a, b = rng.sample(corners, 2)
        t = rng.randint(1, 9)
        ex, ey = a[0] + (b[0] - a[0]) * t // 10, a[1] + (b[1] - a[1]) * t // 10
        if (b[0] - a[0]) * t % 10 or (b[1] - a[1]) * t % 10 or not (last[0] <= ex <= last[2] and last[1] <= ey <= last[3]):
            continue
        sx, sy = rng.randint(rs[0][0], rs[0][2]), rng.randint(rs[0][1], rs[0][3])
        dx, dy = rng.choice([0, -10 * rng.randint(1, 30), 10 * rng.randint(1, 30), -a[0]]), rng.choice([0, -10 * rng.randint(1, 30), -a[1], 10 * rng.randint(1, 9)])
        yield {"kind": kind, "rects": [[r[0] + dx, r[1] + dy, r[2] + dx, r[3] + dy] for r in rs], "s": [sx + dx, sy + dy], "e": [ex + dx, ey + dy], "den": 10}
    yield {"kind": kind, "rects": [[0, -1000, 1000, 0], [-400, 0, 1500, 500]], "s": [385, -663], "e": [1073, 73], "den": 10}
    # random larger corridors (k up to 12), integer corners up to 40
    for _ in range(1500 if tier == "quick" else 25000):
        k = rng.randint(2, 12)
        rs = []
        top = 0
        L, R = sorted(rng.sample(range(0, 41), 2))
        for i in range(k):
            h = rng.randint(1, 6)
            rs.append([L, top, R, top + h])
            top += h
            # next rectangle must overlap [L, R] in a segment of positive length
            for _try in range(50):
                L2, R2 = sorted(rng.sample(range(0, 41), 2))
                if max(L, L2) < min(R, R2):
                    L, R = L2, R2
                    break
        s = (rng.randint(rs[0][0], rs[0][2]), rng.randint(rs[0][1], rs[0][3]))
        e = (rng.randint(rs[-1][0], rs[-1][2]), rng.randint(rs[-1][1], rs[-1][3]))
        yield {"kind": kind, "rects": rs, "s": list(s), "e": list(e), "den": 1}


def well_formed(c):
    rs = c.get("rects")
    if rs is None:
        return True
    for i, r in enumerate(rs):
        if not (r[0] < r[2] and r[1] < r[3]):
            return False
        if i + 1 < len(rs) and not (rs[i + 1][1] == r[3] and max(r[0], rs[i + 1][0]) < min(r[2], rs[i + 1][2])):
            return False
    s, e = c["s"], c["e"]
    return rs[0][0] <= s[0] <= rs[0][2] and rs[0][1] <= s[1] <= rs[0][3] and rs[-1][0] <= e[0] <= rs[-1][2] and rs[-1][1] <= e[1] <= rs[-1][3]


def run_geom(work, driver, prop, cases, tag="geom", budget_ms=3000, mem_mb=300):
    bad = [c for c in cases if not well_formed(c)]
    if bad:
        raise HarnessError("generator produced a malformed corridor: %s" % json.dumps(bad[0]))
    for i, c in enumerate(cases):
        c["case"] = i + 1
    nsh = min(core.NCPU, max(1, len(cases) // 300))
    dirs = []
    for k in range(nsh):
        d = work.sub("%s-%02d" % (tag, k))
        with open(os.path.join(d, "cases.ndjson"), "w") as fh:
            for c in cases[k::nsh]:
                fh.write(json.dumps(c, separators=(",", ":")) + "\n")
        dirs.append(d)
    t0 = time.time()
    aborts = []

    def run(d):
        return core.run_cases(driver, "geom", os.path.join(d, "cases.ndjson"), os.path.join(d, "trace.ndjson"), budget_ms=budget_ms, mem_mb=mem_mb)
    for ab in core.pmap(run, dirs):
        aborts.extend(ab)
    t1 = time.time()
    outs = core.pmap(lambda d: validate(work, d, os.path.join(d, "trace.ndjson"), prop), dirs)
    log("[%s] %d cases in %d shards: driver %.1fs, TLC %.1fs" % (tag, len(cases), len(dirs), t1 - t0, time.time() - t1))
    stats = dict(calls=0, returns=0, judged=0, nontriv=0, viol=0, panics=0, aborts=0, unjudged=0, l3=0)
    viols = []
    states = trans = 0
    for v, st, (gen, dist) in outs:
        for k in stats:
            stats[k] += st.get(k, 0)
        states += dist
        trans += gen
        viols.extend(v)
    if stats["calls"] != len(cases):
        raise HarnessError("geom trace validation consumed %d calls of %d" % (stats["calls"], len(cases)))
    return viols, stats, states, trans, aborts


def geom_signature(c):
    return {k: c[k] for k in ("kind", "rects", "s", "e", "den", "coef", "roots", "tag") if k in c}


def match_known_geom(known, prop, clause, c, where):
    for f in known.get("findings", []):
        if f.get("property") != prop:
            continue
        if "clause" in f and f["clause"] != clause:
            continue
        if "clause_prefix" in f and not clause.startswith(f["clause_prefix"]):
            continue
        if f.get("kind") == "input":
            sig = geom_signature(c)
            if all(sig.get(k) == v for k, v in f["signature"].items()):
                return f
        elif f.get("kind") == "inputs":
            # an explicit list of specific inputs
            if c.get("kind") == f["signature"].get("kind") and c.get("coef") in f["signature"]["coefs"]:
                return f
        elif f.get("kind") == "callsite":
            if where is not None and f["signature"].get("where") == core.norm_where(where):
                return f
        elif f.get("kind") == "class":
            # a class of inputs described by a predicate the check evaluates itself
            if f["signature"].get("class") in classify(c):
                return f
    return None


def classify(c):
    """input classes used by known findings: named geometric coincidences of a shortest/fit case, tag of a solve case"""
    out = set()
    if c.get("kind") == "solve":
        out.add("solve:" + c.get("tag", ""))
        return out
    rs = c["rects"]
    s, e = tuple(c["s"]), tuple(c["e"])
    den = c.get("den", 1)
    corners = set()
    for r in rs:
        for x in (r[0], r[2]):
            for y in (r[1], r[3]):
                corners.add((x, y))
    if e in corners:
        out.add("end-on-corner")
    if s in corners:
        out.add("start-on-corner")
    return out


def finish(prop, tier, seed, t0, cases, viols, stats, states, trans, known, rule, models, extra=None):
    byid = {c["case"]: c for c in cases}
    os.makedirs(os.path.join(core.OUT, "replays"), exist_ok=True)
    new, known_hits, byclause, drift = [], {}, {}, {}
    for v in viols:
        c = byid[v[0]]
        where = v[2] if len(v) > 2 else None
        for pc in v[1]:
            if pc[0] != prop:
                continue
            if pc[1].startswith("L3_"):
                # layer-3 prediction (FunnelOps) differs from the recorded state: a diagnostic, never a verdict
                drift[pc[1]] = drift.get(pc[1], 0) + 1
                if drift[pc[1]] <= 2:
                    log("   drift %s case=%s" % (pc[1], json.dumps(geom_signature(c), separators=(",", ":"))[:300]))
                continue
            f = match_known_geom(known, prop, pc[1], c, where)
            if f:
                known_hits.setdefault(f["id"], [f, 0])[1] += 1
            else:
                new.append((c, pc[1], where))
                byclause[pc[1]] = byclause.get(pc[1], 0) + 1
    if drift:
        print("[geom] DRIFT (diagnostic, not a verdict): %s" % json.dumps(drift, sort_keys=True))
    if byclause:
        log("[%s] violations by clause: %s" % (prop, json.dumps(byclause, sort_keys=True)))
    log("[%s] stats: %s states=%d" % (prop, json.dumps(stats, sort_keys=True), states))
    for fid, (f, n) in sorted(known_hits.items()):
        print("KNOWN-FINDING: property=%s %s (%s; observed %d times in this run)" % (prop, f["what"], fid, n))
    seen = set()
    for c, clause, where in new:
        sig = core.sig_hash([geom_signature(c), clause])
        if sig in seen:
            continue
        seen.add(sig)
        if len(seen) > 25:
            continue
        path = os.path.join(core.OUT, "replays", "%s-%s.json" % (prop, sig))
        with open(path, "w") as fh:
            json.dump({"property": prop, "kind": "geom", "clause": clause, "where": where, "case": geom_signature(c)}, fh, indent=1)
        print("VIOLATION property=%s replay=%s" % (prop, path))
        log("   clause=%s case=%s" % (clause, json.dumps(geom_signature(c), separators=(",", ":"))[:300]))
    cov = {
        "states": max(1, states + sum(m["distinct"] for m in models)),
        "transitions": max(1, trans + sum(m["generated"] for m in models)),
        "traces_validated_against_impl": stats["returns"] + stats["panics"] + stats["aborts"],
        "evaluations": len(cases), "distinct_nontrivial": stats["nontriv"], "judged": stats["judged"], "not_judged": stats["unjudged"],
        "panics": stats["panics"], "process_aborts": stats["aborts"], "rule": rule,
        "samples": [geom_signature(c) for c in cases[:3]] + [{"violating": geom_signature(c), "clause": cl} for c, cl, _ in new[:5]],
        "models": [{k: m[k] for k in ("name", "generated", "distinct", "wall", "ok")} for m in models],
        "known_findings_observed": {fid: n for fid, (f, n) in known_hits.items()}, "violating_cases": len(seen),
        "layer3_predictions": stats.get("l3", 0), "layer3_drift": drift,
    }
    cov.update(extra or {})
    core.write_evidence(prop, tier, seed, cov, ASSUME, time.time() - t0, len(seen))
    return 1 if seen else 0


ASSUME = [
    "TLC evaluates the TLA+ predicates correctly; integer coordinates stay below 2^14 so that cross products fit TLC's 32-bit integers",
    "the union of the rectangles of a well-formed corridor is a simple polygon, in which an inside, taut path is the unique shortest path (the criterion is additionally model-checked at small scope: Unique, NoShorterInside)",
    "the driver reports the return values of the geometry functions faithfully (path points are exact multiples of 1/den; control points in units of 1/1000)",
]


def pipeline_corridors(work, driver, tier, rng, kind):
    """corridors as the LIBRARY builds them: Layout runs with the spline router, a monitor and the stage hook; the stage-5
    snapshots carry, per routed edge, the rectangles and the two end points handed to geom.Shortest (sixths of a unit).  The
    well-formed ones (C19's premise; many are not, see DESIGN.md section 14, D11) become cases of the geometry checks."""
    import cases as K
    n_lay = 700 if tier == "quick" else 6000
    cs = []
    while len(cs) < n_lay:
        n, e = K.random_multigraph(rng, 3, 12, density=rng.choice([1.0, 1.3, 1.6, 2.0]), loop_rate=0.02)
        c = K.case(n, e, p4=rng.choice(K.P4_SIZE_AWARE), p5="splines", ns=rng.choice([1, 2, 10, 30]), ls=rng.choice([1, 4, 10, 40]),
                   p1=rng.choice(K.P1S), p2=rng.choice(K.P2S), mon=1, stages=1)
        c = K.with_sizes(c, rng.choice(["fixed", "fixed", "all", "fixed+all"]), rng.choice(["odd", "unit"]))
        if c["p4"] == "nspos" and n + len(e) > 30:
            c["p4"] = "sink"
        c["case"] = len(cs) + 1
        cs.append(c)
    d = work.sub("pipecor-" + kind)
    cpath, tpath = os.path.join(d, "cases.ndjson"), os.path.join(d, "trace.ndjson")
    with open(cpath, "w") as fh:
        for c in cs:
            fh.write(json.dumps(c, separators=(",", ":")) + "\n")
    core.run_cases(driver, "run", cpath, tpath, budget_ms=3000, mem_mb=600)
    out, total = [], 0
    with open(tpath) as fh:
        for line in fh:
            if not line.startswith('{"ev":"Stage"') or '"st":5' not in line:
                continue
            rec = json.loads(line)
            if rec.get("corsok") != 1:
                continue
            for row in rec["cors"]:
                total += 1
                k = row[0]
                rects = [row[1 + 4 * i: 5 + 4 * i] for i in range(k)]
                s_, e_ = row[1 + 4 * k: 3 + 4 * k], row[3 + 4 * k: 5 + 4 * k]
                gc = {"kind": kind, "rects": rects, "s": s_, "e": e_, "den": 6}
                if k >= 2 and well_formed(gc) and max(abs(v) for r in rects for v in r) <= 20000:
                    out.append(gc)
    log("[%s] pipeline corridors: %d spline edges routed in %d layouts, %d corridors with >= 2 rectangles are well-formed and join the family"
        % (kind, total, len(cs), len(out)))
    return out


def c19_check(prop, tier, seed, replay):
    t0 = time.time()
    work = core.Work(prop)
    try:
        driver = core.build_driver(work)
        known = core.load_known()
        rng = random.Random(seed * 7919 + 19)
        a, b = (3, 3) if tier == "quick" else (3, 4)
        r = core.run_tlc(work, "Corridor", "Corridor.tla", CRIT_CFG % (a, b), workers=core.NCPU, tag="crit", timeout=3000)
        if not r["ok"]:
            raise HarnessError("Corridor.tla: the geodesic criterion fails its own small-scope check:\n" + r["out"][-3000:])
        models = [dict(name="Corridor.tla criterion (Unique, NoShorterInside), MaxRects=%d XMax=%d" % (a, b), **{k: r[k] for k in ("generated", "distinct", "wall", "ok")})]
        # layer 3: the transcription of geom.Shortest (FunnelOps: triangulation, dual graph, crossed diagonals, funnel over the
        # fixed-capacity deque) explored on every corridor x every pair of lattice end points of a small bound
        # (measured: 3 rectangles on a 4-column grid, one height: 11 025 states, 20 s; two heights: 54 575 states, 35 s; 4 rectangles
        # on a 3-column grid: 20 s; 3 rectangles on a 5-column grid: > 1.2 M states, not finished in 20 min)
        # the second configuration puts the corridor across the origin (x from -2, top at -2): door corners at (0, 0)
        bounds = [(3, 3, "{2}", 0, 0), (2, 3, "{2}", 2, 2)] if tier == "quick" else [(3, 3, "{1,2}", 0, 0), (4, 2, "{2}", 0, 0), (3, 3, "{2}", 2, 2)]
        for fi, (fa, fb, fh_, xo, yo) in enumerate(bounds):
            r = core.run_tlc(work, "Funnel", "Funnel.tla", FUN_CFG % (fa, fb, fh_, xo, yo), workers=core.NCPU, tag="funnel%d" % fi, timeout=6000)
            if not r["ok"]:
                raise HarnessError("Funnel.tla: the transcribed design of geom.Shortest fails at small scope (a model finding, not a verdict on the code):\n" + r["out"][-3000:])
            models.append(dict(name="Funnel.tla (FunnelOps: TriangulationTiles, TriangleCount, EveryPointCovered, DualIsTree, Returns, EndToStart, IsShortest, DequeFits, PolygonIsOutline, CornersOnOutline), "
                                    "MaxRects=%d XMax=%d Heights=%s shifted by (-%d,-%d)" % (fa, fb, fh_, xo, yo), **{k: r[k] for k in ("generated", "distinct", "wall", "ok")}))
        for goal in ("GoalBend", "GoalTrim"):
            g = core.run_tlc(work, "Funnel", "Funnel.tla", FUN_GOAL_CFG % goal, workers=4, tag="funnel-" + goal, timeout=3000)
            if g["ok"] or not g.get("violated"):
                raise HarnessError("Funnel.tla: goal state %s is not reached inside the bound (vacuous model)" % goal)
        if replay:
            with open(replay) as fh:
                cases = [dict(json.load(fh)["case"])]
        else:
            seen, cases = set(), []
            for c in list(corridor_cases(tier, rng, "shortest")) + pipeline_corridors(work, driver, tier, rng, "shortest"):
                key = json.dumps(c, sort_keys=True)
                if key not in seen:
                    seen.add(key)
                    cases.append(c)
        viols, stats, states, trans, aborts = run_geom(work, driver, "C19", cases)
        rule = ("corridors: every well-formed corridor of 1-3 rectangles with x in 0..4 and heights {1,2} generated by TLC from Corridor.tla (thorough: also 4 "
                "rectangles) x lattice start points of the first and end points of the last rectangle (all pairs for small corridors, a seeded sample of "
                "%d otherwise), half-unit points, and seeded random corridors of 2-12 rectangles with corners up to 40; the returned polyline must run from "
                "the end to the start point, stay inside (exact integer door-crossing test) and be taut (IsGeodesic); bulge / S-shaped corridors of 5-18 rectangles; and the "
                "well-formed corridors that the library itself builds (spline routing of 700 / 6000 random layouts, recorded by the stage hook); non-trivial = the geodesic bends") % (6 if tier == "quick" else 40)
        return finish("C19", tier, seed, t0, cases, viols, stats, states, trans, known, rule, models)
    finally:
        work.cleanup()


def c20_check(prop, tier, seed, replay):
    t0 = time.time()
    work = core.Work(prop)
    try:
        driver = core.build_driver(work)
        known = core.load_known()
        rng = random.Random(seed * 7919 + 20)
        n = 7 if tier == "quick" else 9
        r = core.run_tlc(work, "SplineFit", "SplineFit.tla", FIT_CFG % n, workers=8, tag="fit", timeout=3000)
        if not r["ok"]:
            raise HarnessError("SplineFit.tla fails its own checks:\n" + r["out"][-3000:])
        models = [dict(name="SplineFit.tla recursion (NeverBad, TilesWhenDone, Termination, Decreases), MaxPath=%d" % n, **{k: r[k] for k in ("generated", "distinct", "wall", "ok")})]
        if replay:
            with open(replay) as fh:
                cases = [dict(json.load(fh)["case"])]
        else:
            seen, cases = set(), []
            for c in list(corridor_cases(tier, rng, "fit")) + pipeline_corridors(work, driver, tier, rng, "fit"):
                key = json.dumps(c, sort_keys=True)
                if key not in seen:
                    seen.add(key)
                    cases.append(c)
            polys = core.load_gen("POLY")
            for pcase in polys:
                cases.append(dict(pcase, den=1))
        viols, stats, states, trans, aborts = run_geom(work, driver, "C20", cases)
        rule = ("fit: the corridors of C19 (TLC-generated and random) whose returned shortest path has >= 3 points and is the geodesic: Shortest + MergeRects + "
                "FitSpline with the recursion hook; the Fit/Split events must replay through SplineFit!FitStep and tile the path, pieces start/end at path points "
                "and join bit-exactly, and 65 fixed-point samples per piece stay within the corridor grown by 0.05 (+0.005 rounding); solve: %d polynomials built "
                "from their roots by TLC (Solve.tla: all triples/pairs of half-integer roots in -3..3 x 4 leading coefficients, complex pairs, leading coefficients "
                "around the solver's epsilon with a far third root) judged by RootsOK on exact rational distances; non-trivial = >= 2 pieces / >= 2 expected roots") % len(core.load_gen("POLY"))
        return finish("C20", tier, seed, t0, cases, viols, stats, states, trans, known, rule, models)
    finally:
        work.cleanup()
