"""Orchestration core of the autog verification framework (python3 stdlib only).

Builds the conformance driver from /repo's current working tree (go build
-overlay, nothing is written to /repo), runs cases in restartable worker
processes, validates the recorded traces with TLC against the TLA+
specifications, runs TLC model checks, matches verdicts against
known_findings.json and writes the evidence file.
"""
import hashlib
import json
import os
import re
import shutil
import subprocess
import sys
import time
from concurrent.futures import ThreadPoolExecutor

VERIF = os.path.dirname(os.path.dirname(os.path.abspath(__file__)))
REPO = os.environ.get("VERIF_REPO", "/repo")
# evidence/ and replays/ go under /verif; the self-test (lib/selftest.py) runs the checks against mutated scratch copies of the
# repository and sends their output elsewhere, so that the registered evidence always describes /repo itself
OUT = os.environ.get("VERIF_OUT", VERIF)
JAR = "/opt/veriftools/tla/tla2tools.jar"
CMJAR = "/opt/veriftools/tla/CommunityModules-deps.jar"
NCPU = max(2, min(16, os.cpu_count() or 2))

GOENV = dict(os.environ, GOFLAGS="-mod=mod", GOPROXY="off", GOSUMDB="off", GOTOOLCHAIN="local")


class HarnessError(Exception):
    """Infrastructure trouble: exit 2, never a verdict."""


def log(*a):
    print(*a, file=sys.stderr, flush=True)


# --------------------------------------------------------------------------- work dir
class Work:
    def __init__(self, tag):
        self.dir = os.path.join(VERIF, ".work", "%s-%d" % (tag, os.getpid()))
        shutil.rmtree(self.dir, ignore_errors=True)
        os.makedirs(self.dir)
        self.specdir = os.path.join(self.dir, "spec")
        os.makedirs(self.specdir)
        for root, _, files in os.walk(os.path.join(VERIF, "spec")):
            for f in files:
                if f.endswith(".tla") or f.endswith(".cfg"):
                    shutil.copy(os.path.join(root, f), os.path.join(self.specdir, f))

    def sub(self, name):
        d = os.path.join(self.dir, name)
        os.makedirs(d, exist_ok=True)
        return d

    def cleanup(self):
        if os.environ.get("VERIF_KEEP") != "1":
            shutil.rmtree(self.dir, ignore_errors=True)


# --------------------------------------------------------------------------- driver build
def build_driver(work, race=False):
    """go build the driver from /repo's working tree with the overlay; returns the binary path."""
    if os.environ.get("VERIF_DRIVER") and not race:
        # lib/coverage.sh: a driver built elsewhere with -cover (go build -cover cannot read overlay files)
        return os.environ["VERIF_DRIVER"]
    replace = {}
    drv = os.path.join(VERIF, "harness", "driver")
    for f in sorted(os.listdir(drv)):
        if f.endswith(".go"):
            replace[os.path.join(REPO, "internal/zzverif/driver", f)] = os.path.join(drv, f)
    shims = os.path.join(VERIF, "harness", "shims")
    for f in sorted(os.listdir(shims)):
        # shims/<pkg path with __ for />__<file>.go is added to that package
        if f.endswith(".go"):
            parts = f.split("__")
            replace[os.path.join(REPO, *parts[:-1], "zz_verif_" + parts[-1])] = os.path.join(shims, f)
    ov = os.path.join(work.dir, "overlay.json")
    out = os.path.join(work.dir, "driver-race" if race else "driver")
    cmd = ["go", "build", "-tags", "verif", "-overlay", ov, "-o", out]
    if race:
        cmd.append("-race")

    cmd.append("./internal/zzverif/driver")
    t0 = time.time()
    # a shim reads unexported state of a package; a refactoring of that package that keeps every listed property can make
    # it stop compiling.  That must not take all checks down: shims_fallback/<shim name>.<k>.go are tried in order, each
    # assuming less about the package (what it can no longer see is reported as unknown and not judged).
    fb_dir = os.path.join(VERIF, "harness", "shims_fallback")
    level = 0
    while True:
        with open(ov, "w") as fh:
            json.dump({"Replace": replace}, fh)
        p = subprocess.run(cmd, cwd=REPO, env=GOENV, capture_output=True, text=True)
        if p.returncode == 0:
            break
        level += 1
        swapped = False
        for f in sorted(os.listdir(shims)):
            fb = os.path.join(fb_dir, f[:-3] + ".%d.go" % level)
            if f.endswith(".go") and os.path.exists(fb) and (f in (p.stdout + p.stderr) or os.path.basename(replace[os.path.join(REPO, *f.split("__")[:-1], "zz_verif_" + f.split("__")[-1])]) in (p.stdout + p.stderr)):
                parts = f.split("__")
                replace[os.path.join(REPO, *parts[:-1], "zz_verif_" + parts[-1])] = fb
                swapped = True
                log("[build] shim %s does not compile against this tree; falling back to %s" % (f, os.path.basename(fb)))
        if not swapped:
            raise HarnessError("driver build failed:\n" + p.stdout + p.stderr)
    log("[build] driver%s built in %.1fs" % (" (race)" if race else "", time.time() - t0))
    return out


# --------------------------------------------------------------------------- running cases
ABORT_RE = re.compile(r"VERIF-ABORT kind=(\w+) case=(-?\d+)")
FRAME_RE = re.compile(r"^(github\.com/nulab/autog[\w/.\-]*\.[\w.()*\[\]]+)\(", re.M)


def _top_frame(stderr):
    """first autog frame of a Go traceback (names the stuck or crashing function)"""
    for m in FRAME_RE.finditer(stderr):
        fn = m.group(1)
        if "zzverif" in fn:
            continue
        return fn.replace("github.com/nulab/autog/", "").replace("github.com/nulab/autog.", "autog.")
    return "?"


def _last_open_call(trace_path):
    """id of the last Call record without completion, and the number of completed cases"""
    last_call = None
    done = 0
    with open(trace_path, "rb") as fh:
        for line in fh:
            if line.startswith(b'{"ev":"Call"'):
                m = re.match(rb'\{"ev":"Call","case":(-?\d+)', line)
                last_call = int(m.group(1))
            elif line.startswith(b'{"ev":"Stage"'):
                continue
            elif line.startswith(b'{"ev":'):
                last_call = None
                m = re.match(rb'\{"ev":"\w+","case":(-?\d+)', line)
                # in-process repetitions logged by the driver (ids above 10^7) are not cases of the case file
                if m and int(m.group(1)) < 10000000:
                    done += 1
    return last_call, done


def run_cases(driver, sub, cases_path, trace_path, budget_ms=10000, mem_mb=1024, extra=(), ncases=None):
    """Run one case file through the driver, restarting it after every process abort.

    A case that kills the worker is recorded as an Abort event attributed to the
    last Call without completion.  A watchdog overrun only becomes an Abort after
    the single case overran again, alone, with three times the budget (rule 7).
    Returns the list of abort descriptions.
    """
    open(trace_path, "w").close()
    skip = 0
    aborts = []
    retried = set()
    while True:
        cmd = [driver, sub, "-cases", cases_path, "-out", trace_path, "-skip", str(skip),
               "-budgetms", str(budget_ms), "-memmb", str(mem_mb)] + list(extra)
        env = dict(os.environ, GOTRACEBACK="all", GOMAXPROCS=os.environ.get("VERIF_GOMAXPROCS", "2"))
        p = subprocess.run(cmd, capture_output=True, text=True, env=env,
                           preexec_fn=_limit_as(max(4096, mem_mb * 4)))
        if p.returncode == 0:
            return aborts
        if p.returncode in (64, 65) or "VERIF-HARNESS-ERROR" in p.stderr:
            raise HarnessError("driver: " + p.stderr[-2000:])
        open_call, done = _last_open_call(trace_path)
        if open_call is None:
            raise HarnessError("driver died outside a case (exit %d): %s" % (p.returncode, p.stderr[-2000:]))
        kind = "crash"
        m = ABORT_RE.search(p.stderr)
        if m:
            kind = m.group(1)
        elif "stack overflow" in p.stderr or "goroutine stack exceeds" in p.stderr:
            kind = "stackoverflow"
        elif "out of memory" in p.stderr or "cannot allocate memory" in p.stderr:
            kind = "memory"
        where = _top_frame(p.stderr)
        if kind == "timeout" and open_call not in retried and budget_ms > 0:
            # re-run the single case alone with 3x the budget before calling it a hang
            retried.add(open_call)
            tmp = trace_path + ".retry"
            one = cases_path + ".one"
            with open(cases_path) as src, open(one, "w") as dst:
                for i, line in enumerate(l for l in src if l.strip()):
                    if i == done:
                        dst.write(line)
            p2 = subprocess.run([driver, sub, "-cases", one, "-out", tmp, "-budgetms", str(budget_ms),
                                 "-budgetscale", "3", "-memmb", str(mem_mb)] + list(extra), capture_output=True, text=True, env=env,
                                preexec_fn=_limit_as(max(4096, mem_mb * 4)))
            if p2.returncode == 0:
                # it completed: splice its completion record after the open Call
                with open(tmp) as fh:
                    lines = fh.readlines()
                with open(trace_path, "a") as out:
                    out.writelines(lines[1:])
                os.remove(tmp)
                os.remove(one)
                skip = done + 1
                continue
            for f in (tmp, one):
                if os.path.exists(f):
                    os.remove(f)
        with open(trace_path, "a") as out:
            out.write(json.dumps({"ev": "Abort", "case": open_call, "g": 0, "kind": kind, "where": where},
                                 separators=(",", ":")) + "\n")
        aborts.append({"case": open_call, "kind": kind, "where": where, "stderr": p.stderr[-1500:]})
        skip = done + 1
        if len(aborts) > 2000:
            raise HarnessError("more than 2000 process aborts in one shard")


def _limit_as(mb):
    def fn():
        import resource
        resource.setrlimit(resource.RLIMIT_AS, (mb << 20, mb << 20))
    return fn


# --------------------------------------------------------------------------- TLC
def java_cmd(work, tmpdir, xmx="2g", extra_props=()):
    return ["java", "-Xmx" + xmx, "-Xss256m", "-XX:+UseParallelGC", "-Djava.io.tmpdir=" + tmpdir,
            "-DTLA-Library=" + work.specdir] + list(extra_props) + ["-cp", JAR + ":" + CMJAR, "tlc2.TLC"]


TLC_STATES_RE = re.compile(r"(\d+) states generated, (\d+) distinct states found")


def validate_trace(work, shard_dir, trace_path, props, timeout=3600):
    """Run ApiTrace on one trace file. Returns (viols, stats, states) or raises HarnessError."""
    cfg = os.path.join(shard_dir, "ApiTrace.cfg")
    with open(cfg, "w") as fh:
        fh.write("SPECIFICATION TraceSpec\nCONSTANT Props = {%s}\nPOSTCONDITION TraceAccepted\nCHECK_DEADLOCK FALSE\n"
                 % ", ".join('"%s"' % p for p in props))
    cmd = java_cmd(work, shard_dir) + ["-workers", "1", "-metadir", os.path.join(shard_dir, "meta"),
                                       "-noGenerateSpecTE", "-config", cfg,
                                       os.path.join(work.specdir, "ApiTrace.tla")]
    env = dict(os.environ, VERIF_TRACE=trace_path)
    try:
        p = subprocess.run(cmd, cwd=shard_dir, env=env, capture_output=True, text=True, timeout=timeout)
    except subprocess.TimeoutExpired:
        raise HarnessError("TLC trace validation timed out on " + trace_path)
    out = p.stdout
    viols, stats = [], None
    for line in out.splitlines():
        if line.startswith('"VIOL '):
            viols.append(json.loads(json.loads(line)[5:]))
        elif line.startswith('"STATS '):
            stats = json.loads(json.loads(line)[6:])
    m = TLC_STATES_RE.search(out)
    if p.returncode != 0 or "Model checking completed. No error has been found." not in out or m is None:
        with open(os.path.join(shard_dir, "tlc.out"), "w") as fh:
            fh.write(out + p.stderr)
        raise HarnessError("TLC failed on %s (exit %d):\n%s" % (trace_path, p.returncode, _tlc_tail(out + p.stderr)))
    if stats is None:
        # empty trace
        stats = dict(calls=0, returns=0, judged=0, nontriv=0, viol=0, panics=0, aborts=0, unjudged=0)
    return viols, stats, (int(m.group(1)), int(m.group(2)))


def _tlc_tail(out):
    lines = [l for l in out.splitlines() if not l.startswith("Linting") and not l.startswith("Semantic processing")
             and not l.startswith("Parsing file")]
    return "\n".join(lines[-40:])


def run_tlc(work, name, spec, cfg_text, workers=NCPU, timeout=3600, xmx="8g", args=(), env=None, tag=None):
    """Run TLC on a model. Returns dict(out, generated, distinct, ok, violated)."""
    d = work.sub("tlc-" + (tag or name))
    cfg = os.path.join(d, name + ".cfg")
    with open(cfg, "w") as fh:
        fh.write(cfg_text)
    cmd = java_cmd(work, d, xmx=xmx) + ["-workers", str(workers), "-metadir", os.path.join(d, "meta"),
                                        "-noGenerateSpecTE", "-config", cfg] + list(args) + \
        [os.path.join(work.specdir, spec)]
    t0 = time.time()
    try:
        p = subprocess.run(cmd, cwd=d, capture_output=True, text=True, timeout=timeout,
                           env=dict(os.environ, **(env or {})))
    except subprocess.TimeoutExpired:
        raise HarnessError("TLC timed out on model " + name)
    out = p.stdout
    m = None
    for m in TLC_STATES_RE.finditer(out):
        pass
    res = dict(out=out, err=p.stderr, rc=p.returncode, wall=time.time() - t0,
               generated=int(m.group(1)) if m else 0, distinct=int(m.group(2)) if m else 0,
               ok="No error has been found" in out,
               violated=("is violated" in out or "Invariant" in out and "violated" in out))
    return res


# --------------------------------------------------------------------------- generated corpora
def gen_path(name):
    return os.path.join(VERIF, "gen", name + ".ndjson")


def load_gen(name):
    p = gen_path(name)
    if not os.path.exists(p):
        raise HarnessError("generated corpus %s missing: run ./setup" % p)
    with open(p) as fh:
        return [json.loads(l) for l in fh if l.strip()]


# --------------------------------------------------------------------------- known findings
def load_known():
    p = os.path.join(VERIF, "known_findings.json")
    if not os.path.exists(p):
        return {"findings": [], "fixed": []}
    with open(p) as fh:
        return json.load(fh)


def case_signature(case):
    """what identifies a failing Layout case: canonical input + the options that reach the library"""
    keys = ["n", "edges", "names", "p1", "p2", "p3", "p4", "p5", "ns", "nsd", "sden", "ls", "fixed", "smap", "virt", "bkl", "oo", "dup", "thor", "mon", "sc", "bad",
            "rel", "part"]
    return {k: case[k] for k in keys if k in case and case[k] not in ("", [], None)}


def sig_hash(obj):
    return hashlib.sha1(json.dumps(obj, sort_keys=True, separators=(",", ":")).encode()).hexdigest()[:12]


def norm_where(where):
    """function name of a panic/abort site, without closure suffixes, generic brackets and file:line"""
    if not where:
        return None
    fn = where.split()[0]
    fn = re.sub(r"\[[^\]]*\]", "", fn)
    fn = re.sub(r"(\.func\d+)+(\.\d+)*$", "", fn)
    return fn


def case_facts(case):
    """derived facts about a case that known-finding signatures may refer to (keys start with an underscore)"""
    n = case.get("n", 0)
    smap, fixed = case.get("smap") or [], case.get("fixed") or []
    zero = False
    for i in range(n):
        if smap and i < len(smap) and smap[i][0] == 1:
            w, h = smap[i][1], smap[i][2]
        elif fixed:
            w, h = fixed[0], fixed[1]
        else:
            w, h = 0, 0
        if w == 0 or h == 0:
            zero = True
    # the spline router's corridor has a rectangle of zero width or height (zero-size node, no node or layer spacing),
    # or the positioner is Brandes-Koepf, which is documented to ignore sizes (overlapping nodes: inverted rectangles)
    degenerate = zero or case.get("ns") == 0 or case.get("ls") == 0
    # the network-simplex positioner works on an integer grid: a NodeSpacing below 0.5 is rounded away, neighbours may touch
    if case.get("p4") == "nspos" and (case.get("nsd") or 1) > 1 and 2 * case.get("ns", 0) < (case.get("nsd") or 1):
        degenerate = True
    return {"_degenerate_corridor_or_bk": bool(degenerate or str(case.get("p4", "")).startswith("bk") or case.get("p4") == "noop")}


def match_known(known, prop, clause, case, where=None):
    """returns the matching known-finding entry or None.
    kind "input":    the exact canonical input + options listed in the signature
    kind "callsite": the function in which the panic was raised / the process was stuck, plus option predicates"""
    if case.get("nokf"):
        # an input of regress/<prop>.json: it failed before a repair and passes since; no known finding may absorb it
        return None
    for f in known.get("findings", []):
        if f.get("property") != prop:
            continue
        if "clause" in f and f["clause"] != clause:
            continue
        if "clause_prefix" in f and not clause.startswith(f["clause_prefix"]):
            continue
        kind = f.get("kind")
        if kind == "input":
            sig = case_signature(case)
            if all(sig.get(k) == v for k, v in f["signature"].items()):
                return f
        elif kind == "callsite":
            if where is not None and f["signature"].get("where") == norm_where(where):
                pred = f["signature"].get("when", {})
                facts = case_facts(case)
                if all((facts.get(k) if k.startswith("_") else case.get(k)) == v for k, v in pred.items()):
                    return f
    return None


# --------------------------------------------------------------------------- evidence
def write_evidence(prop, tier, seed, coverage, assumptions, wall, violations, level="model_checking"):
    os.makedirs(os.path.join(OUT, "evidence"), exist_ok=True)
    ev = {
        "property_id": prop,
        "tier": tier,
        "seed": seed,
        "level": level,
        "coverage": coverage,
        "assumptions": assumptions,
        "wall_s": round(wall, 2),
        "violations": violations,
    }
    p = os.path.join(OUT, "evidence", prop + ".json")
    tmp = p + ".tmp"
    with open(tmp, "w") as fh:
        json.dump(ev, fh, indent=1, sort_keys=True)
        fh.write("\n")
    os.replace(tmp, p)
    return p


def pmap(fn, items, n=NCPU):
    with ThreadPoolExecutor(max_workers=n) as ex:
        return list(ex.map(fn, items))
