"""Case families and check functions for the properties judged on traces of autog.Layout
by the layer-1 predicates of spec/api/AutogApi.tla (trace validation, code -> spec)."""
import itertools
import json
import random
import time

import core
import engine
import cases as K
from cases import case, with_sizes


def grid(**axes):
    keys = list(axes)
    return [dict(zip(keys, vals)) for vals in itertools.product(*[axes[k] for k in keys])]


def rotate(inputs, combos, per_input, rng):
    """every input meets `per_input` different option combinations; the combinations are
    rotated over the inputs so that each one is used equally often"""
    combos = list(combos)
    rng.shuffle(combos)
    L = len(combos)
    stride = max(1, L // per_input)
    for i, inp in enumerate(inputs):
        for k in range(min(per_input, L)):
            yield inp, combos[(i + k * stride) % L]


def apply(n, edges, combo):
    c = case(n, edges)
    size_mode = None
    for k, v in combo.items():
        if k == "size":
            size_mode = v
        elif k == "pat":
            pass
        else:
            c[k] = v
    if size_mode:
        c = with_sizes(c, size_mode, combo.get("pat", "het"))
    return c


def random_inputs(rng, count, nmin, nmax, **kw):
    seen = set()
    out = []
    tries = 0
    while len(out) < count and tries < count * 5:
        tries += 1
        n, e = K.random_multigraph(rng, nmin, nmax, **kw)
        key = tuple(map(tuple, e))
        if key in seen:
            continue
        seen.add(key)
        out.append((n, e))
    return out


# ---------------------------------------------------------------------------- per-property families
def fam_E(tier):
    return "E44" if tier == "quick" else "E45"


def c02_cases(tier, rng):
    combos = grid(p1=K.P1S, p2=K.P2S, p4=["sink", "valign"], p5=["poly", "noop", "straight"],
                  size=["none", "fixed", "all", "some", "nomap", "fixed+some"], virt=[0, 1])
    inputs = [(n, e) for n, e, _ in K.family(fam_E(tier))]
    for (n, e), cb in rotate(inputs, combos, 4 if tier == "quick" else 6, rng):
        yield apply(n, e, cb)
    combos2 = grid(p1=K.P1S, p2=K.P2S, p4=K.P4_ALL, p5=["poly", "ortho", "straight", "noop"],
                   size=["none", "fixed", "all", "some", "fixed+some"], virt=[0, 1])
    rnd = random_inputs(rng, 1500 if tier == "quick" else 20000, 4, 14)
    for (n, e), cb in rotate(rnd, combos2, 1, rng):
        yield apply(n, e, cb)


def c03_cases(tier, rng):
    combos = grid(p1=K.P1S, p2=K.P2S, p4=["sink", "valign", "pack", "nspos", "bk"], p5=["straight"],
                  size=["all", "none", "fixed"], pat=["het", "het2"], ls=[1, 10])
    inputs = [(n, e) for n, e, _ in K.family(fam_E(tier))]
    for (n, e), cb in rotate(inputs, combos, 4 if tier == "quick" else 6, rng):
        yield apply(n, e, cb)
    rnd = random_inputs(rng, 1500 if tier == "quick" else 15000, 4, 16) + \
        random_inputs(rng, 1000 if tier == "quick" else 15000, 5, 30, acyclic=True, connected=True, loop_rate=0)
    for (n, e), cb in rotate(rnd, combos, 1, rng):
        yield apply(n, e, cb)


def c04_cases(tier, rng):
    combos = grid(p1=K.P1S, p2=K.P2S, p4=K.P4_SIZE_AWARE, p5=["straight"],
                  size=["all", "fixed", "none", "some"], pat=["het", "het2", "wide1", "odd"], ns=[0, 1, 10])
    inputs = [(n, e) for n, e, _ in K.family(fam_E(tier))]
    for (n, e), cb in rotate(inputs, combos, 4 if tier == "quick" else 6, rng):
        yield apply(n, e, cb)
    rnd = random_inputs(rng, 2500 if tier == "quick" else 30000, 4, 30)
    for (n, e), cb in rotate(rnd, combos, 1, rng):
        yield apply(n, e, cb)


def c05_cases(tier, rng):
    combos = grid(p1=K.P1S, p2=K.P2S, p4=K.P4_ALL, p5=["straight", "poly", "ortho"],
                  size=["all", "fixed"], pat=["het", "odd"])
    inputs = [(n, e) for n, e, r in K.family(fam_E(tier))]
    for (n, e), cb in rotate(inputs, combos, 4 if tier == "quick" else 6, rng):
        yield apply(n, e, cb)
    rnd = random_inputs(rng, 2000 if tier == "quick" else 25000, 4, 20)
    for (n, e), cb in rotate(rnd, combos, 1, rng):
        yield apply(n, e, cb)


def c06_cases(tier, rng):
    combos = grid(p1=K.P1S, p2=K.P2S, p4=K.P4_SIZE_AWARE, p5=["straight", "poly", "ortho"],
                  size=["all", "fixed"], pat=["het", "het2", "odd"], virt=[0, 1])
    inputs = [(n, e) for n, e, r in K.family(fam_E(tier))]
    for (n, e), cb in rotate(inputs, combos, 4 if tier == "quick" else 6, rng):
        yield apply(n, e, cb)
    rnd = random_inputs(rng, 2000 if tier == "quick" else 25000, 5, 20)
    for (n, e), cb in rotate(rnd, combos, 1, rng):
        yield apply(n, e, cb)


def c14_cases(tier, rng):
    combos_dfs = grid(p1=["dfs"], p2=K.P2S, p4=["valign"], p5=["straight"])
    combos_all = grid(p1=K.P1S, p2=K.P2S, p4=["valign"], p5=["straight"])
    for n, e, r in K.family(fam_E(tier)):
        if r["acyc"] == 1:
            for cb in combos_all:
                yield apply(n, e, cb)
        else:
            for cb in combos_dfs:
                yield apply(n, e, cb)
    rnd = random_inputs(rng, 2000 if tier == "quick" else 30000, 4, 30, density=1.6)
    for (n, e), cb in rotate(rnd, combos_all, 1, rng):
        yield apply(n, e, cb)


def c16_cases(tier, rng):
    combos = grid(p1=K.P1S, p2=K.P2S, p4=["valign", "pack"], p5=["poly"], virt=[1],
                  size=["all", "fixed", "none"], pat=["het", "het2", "odd", "wide1"], ns=[0, 1, 10])
    inputs = [(n, e) for n, e, r in K.family(fam_E(tier)) if r["conn"] == 1]
    for (n, e), cb in rotate(inputs, combos, 4 if tier == "quick" else 6, rng):
        yield apply(n, e, cb)
    rnd = random_inputs(rng, 2000 if tier == "quick" else 25000, 4, 30, connected=True)
    for (n, e), cb in rotate(rnd, combos, 1, rng):
        yield apply(n, e, cb)


RULES = {
    "C02": "inputs: every canonical multigraph edge list of E(4,4) (quick) / E(4,5) (thorough) generated by TLC from Inputs.tla x rotating option grid (breakers x layerers x positioners x routers x size options x virtual-node output), plus seeded random multigraphs of 4-14 nodes; distinct by canonical list x options; non-trivial = input has a cycle, a self-loop, a parallel/antiparallel pair, or a routed edge with bends",
    "C03": "E(4,4)/E(4,5) x breakers x layerers x 5 positioners x heterogeneous heights x LayerSpacing {1,10}, plus random multigraphs and random connected DAGs up to 30 nodes; non-trivial = some component has >= 2 bands",
    "C04": "E(4,4)/E(4,5) x breakers x layerers x the four size-aware positioners x four width/height patterns (zero sizes, one very wide node, odd widths) x NodeSpacing {0,1,10}, plus random multigraphs up to 30 nodes; non-trivial = >= 2 components or two nodes in one band",
    "C05": "E(4,4)/E(4,5) x all positioners (incl. the four forced B&K layouts) x {straight, polyline, ortho} x size patterns, plus random multigraphs up to 20 nodes; non-trivial = a reversed edge, a long edge or >= 2 components",
    "C06": "E(4,4)/E(4,5) x size-aware positioners x {straight, polyline, ortho} x heterogeneous widths AND heights x virtual-node output, plus random multigraphs up to 20 nodes; non-trivial = a routed edge with more than two points",
    "C14": "every cyclic list of E(4,4)/E(4,5) x DepthFirst and every acyclic list x {Greedy, DepthFirst}, x both layerers, plus random multigraphs up to 30 nodes; non-trivial = >= 1 reversed edge or a parallel/antiparallel pair",
    "C16": "every connected list of E(4,4)/E(4,5) x {VAlign, PackRight} x width patterns x NodeSpacing {0,1,10} with helper nodes in the output, plus random connected multigraphs up to 30 nodes; non-trivial = >= 2 bands and a band with >= 2 nodes",
}

ASSUME = [
    "TLC (tla2tools 1.8.0) evaluates the TLA+ predicates correctly; the CommunityModules Json reader is exact on integers below 2^31",
    "the conformance driver (harness/driver, injected with go build -overlay) reports the library's return values faithfully; coordinates are logged in units of 1/64 with a per-record exactness flag",
    "beyond the exhaustive bound the inputs are a seeded random sample",
]

FAMILIES = {
    "C02": c02_cases, "C03": c03_cases, "C04": c04_cases, "C05": c05_cases, "C06": c06_cases,
    "C14": c14_cases, "C16": c16_cases,
}


def run_unary(prop, tier, seed, replay):
    t0 = time.time()
    work = core.Work(prop)
    try:
        driver = core.build_driver(work)
        known = core.load_known()
        if replay:
            with open(replay) as fh:
                rp = json.load(fh)
            cs = [dict(rp["case"])]
        else:
            rng = random.Random(seed * 7919 + int(prop[1:]))
            dd = K.Dedup()
            cs = [c for c in FAMILIES[prop](tier, rng) if dd.fresh(c)]
        res = engine.run_layout_cases(work, driver, [prop], cs)
        return engine.report(prop, res, known, tier, seed, {"exhaustive_family": fam_E(tier)}, ASSUME, t0, RULES[prop])
    finally:
        work.cleanup()
