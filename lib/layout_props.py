"""Case families and check functions for the properties judged on traces of autog.Layout
by the layer-1 predicates of spec/api/AutogApi.tla (trace validation, code -> spec)."""
import itertools
import json
import os
import random
import time

import core
import engine
import cases as K
from cases import case, with_sizes


def budget_ms(n, m, p4="sink"):
    """the spec's BudgetMs (AutogApi.tla), used as the driver's per-case watchdog"""
    sz = n + m
    if p4 == "nspos":
        return 2000 + ((sz * sz) // 200) * sz * sz if sz <= 300 else 2000000000
    return 2000 + ((sz * sz) // 100) * sz if sz <= 1200 else 2000000000


def grid(**axes):
    keys = list(axes)
    return [dict(zip(keys, vals)) for vals in itertools.product(*[axes[k] for k in keys])]


def rotate(inputs, combos, per_input, rng):
    """every input meets `per_input` different option combinations; the combinations are
    rotated over the inputs so that each one is used equally often"""
    combos = list(combos)
    rng.shuffle(combos)
    L = len(combos)
    stride = max(1, L // per_input)
    for i, inp in enumerate(inputs):
        for k in range(min(per_input, L)):
            yield inp, combos[(i + k * stride) % L]


def apply(n, edges, combo):
    c = case(n, edges)
    size_mode = None
    for k, v in combo.items():
        if k == "size":
            size_mode = v
        elif k == "pat":
            pass
        else:
            c[k] = v
    if size_mode:
        c = with_sizes(c, size_mode, combo.get("pat", "het"))
    # the network-simplex positioner needs seconds to minutes beyond a few dozen nodes and edges (documented,
    # measured in DESIGN.md section 12): the families use it up to NSPOS_MAX nodes+edges and SinkColoring beyond
    if c["p4"] == "nspos" and n + len(edges) > NSPOS_MAX:
        c["p4"] = "sink"
    c["budgetms"] = budget_ms(n, len(edges), c["p4"])
    return c


NSPOS_MAX = 36

# phases 1-3 do not read the positioner, the router or the output option - which is exactly why families that judge phases
# 1-3 rotate through them anyway: state carried from a later phase of one component (or call) into an earlier phase of the
# next, and flags written by the router, show up only if the later phases vary
_VARY_P4 = ["valign", "sink", "pack", "bk"]
_VARY_P5 = ["straight", "poly", "ortho", "noop"]


def vary(cases):
    for i, c in enumerate(cases):
        c = dict(c)
        c["bkl"] = (i // 7) % 5          # 1..4: a forced Brandes-Koepf layout although the positioner is another one
        c["oo"] = (i // 3) % 2           # the option list in reverse order
        c["p5"] = _VARY_P5[i % 4]
        c["p4"] = _VARY_P4[(i // 4) % 4]
        c["virt"] = (i // 16) % 2
        c["budgetms"] = budget_ms(c["n"], len(c["edges"]), c["p4"])
        yield c


def random_inputs(rng, count, nmin, nmax, **kw):
    seen = set()
    out = []
    tries = 0
    while len(out) < count and tries < count * 5:
        tries += 1
        n, e = K.random_multigraph(rng, nmin, nmax, **kw)
        key = tuple(map(tuple, e))
        if key in seen:
            continue
        seen.add(key)
        out.append((n, e))
    return out


# ---------------------------------------------------------------------------- per-property families
def shaped_inputs(tier):
    """structured families that small exhaustive and random inputs do not contain"""
    shaped = [K.staircase(k, sf, fan) for k in range(2, 9 if tier == "quick" else 13) for sf in (True, False) for fan in (1, 2)]
    shaped += [K.ladder(L, w, tw) for L in (3, 5, 8) for w in (2, 3) for tw in (True, False)]
    shaped += [K.caterpillar(n, d) for n in (6, 10, 16) for d in ("out", "in")] + [K.binary_tree(k, d) for k in (3, 4) for d in ("out", "in")]
    shaped += [K.grid(w, h) for w in (2, 3, 4) for h in (2, 3, 4)] + [K.bipartite(a, b) for a in (2, 3, 4) for b in (2, 3, 4)]
    # edges spanning 16-40 layers (routes with as many bends; helper-node chains longer than any small constant)
    shaped += [K.chord_chain(L, [(0, L - 1)]) for L in (17, 18, 25, 33, 40)] + [K.chord_chain(L, [(L - 1, 0)]) for L in (17, 20, 34)]
    shaped += [K.chord_chain(30, [(0, 29), (3, 22), (5, 9)]), K.chord_chain(22, [(0, 21), (0, 21), (21, 1)])]
    # paths of different lengths between two nodes (+ pendant leaves), many edge orders: stretched edges between balanced nodes
    prng = random.Random(4711)
    for _ in range(250 if tier == "quick" else 2500):
        k = prng.randint(2, 4)
        lens = [prng.randint(0, 6) for _ in range(k)]
        if max(lens) - min(lens) < 2:
            lens[0] = max(lens) + 2
        shaped.append(K.parallel_paths(prng, lens, pendants=prng.randint(0, 4)))
    return shaped


def fam_E(tier):
    return "E44" if tier == "quick" else "E45"


def c02_cases(tier, rng):
    combos = grid(p1=K.P1S, p2=K.P2S, p4=["sink", "valign"], p5=["poly", "noop", "straight"],
                  size=["none", "fixed", "all", "some", "nomap", "fixed+some", "fixed+zero", "fixed+all"], pat=["het", "het2"], virt=[0, 1])
    inputs = [(n, e) for n, e, _ in K.family(fam_E(tier))]
    for (n, e), cb in rotate(inputs, combos, 4 if tier == "quick" else 6, rng):
        yield apply(n, e, cb)
    combos2 = grid(p1=K.P1S, p2=K.P2S, p4=K.P4_ALL, p5=["poly", "ortho", "straight", "noop", "splines"],
                   size=["none", "fixed", "all", "some", "fixed+some", "fixed+zero"], pat=["het", "het2"], virt=[0, 1])
    rnd = random_inputs(rng, 1500 if tier == "quick" else 20000, 4, 14)
    for (n, e), cb in rotate(rnd, combos2, 1, rng):
        yield apply(n, e, cb)
    for (n, e), cb in rotate(shaped_inputs(tier), combos2, 3, rng):
        yield apply(n, e, cb)
    # sizes OFF the binary grid (tenths, thirds, sevenths of the patterns' integers: 0.1, 12.7, 2/3 ...): a width that is
    # padded and un-padded, converted to a centre and back, or summed up comes back as a neighbouring float64 - "exactly the
    # configured width" is judged on the exact decomposition of the returned float64 (ExpSizeEx)
    combos3 = grid(p1=K.P1S, p2=K.P2S, p4=K.P4_ALL, p5=["poly", "ortho", "straight", "noop", "splines"],
                   size=["fixed", "all", "some", "fixed+some", "fixed+all"], pat=["het", "odd", "dec"], virt=[0, 1], sden=[10, 3, 7, 10], ns=[2, 7], nsd=[1, 4])
    dec = random_inputs(rng, 1500 if tier == "quick" else 15000, 2, 10) + [(n, e) for n, e, _ in K.family("E33")]
    for (n, e), cb in rotate(dec, combos3, 1, rng):
        c = apply(n, e, cb)
        if c.get("fixed"):
            c["fixed"] = [127, 41] if cb["pat"] == "dec" else [1, 1]
        yield c


def c03_cases(tier, rng):
    # the arrow flag is written by the routing phase: every router, and no routing at all
    combos = grid(p1=K.P1S, p2=K.P2S, p4=["sink", "valign", "pack", "nspos", "bk"], p5=["straight", "noop", "poly", "ortho"],
                  size=["all", "none", "fixed"], pat=["het", "het2"], ls=[1, 10])
    inputs = [(n, e) for n, e, _ in K.family(fam_E(tier))]
    for (n, e), cb in rotate(inputs, combos, 4 if tier == "quick" else 6, rng):
        yield apply(n, e, cb)
    rnd = random_inputs(rng, 1500 if tier == "quick" else 15000, 4, 16) + \
        random_inputs(rng, 1000 if tier == "quick" else 15000, 5, 30, acyclic=True, connected=True, loop_rate=0)
    for (n, e), cb in rotate(rnd, combos, 1, rng):
        yield apply(n, e, cb)
    for (n, e), cb in rotate(shaped_inputs(tier), combos, 4, rng):
        yield apply(n, e, cb)
    # edges stretched between two balanced nodes (what the balancing step of the network simplex works on)
    for i in range(1500 if tier == "quick" else 15000):
        n, e = K.stretched(rng)
        yield apply(n, e, dict(p1=K.P1S[i % 3], p2="ns", p4="valign", p5="straight", size="fixed", ls=4))


def nspos_small_budget(tier, rng, count, extra, simple=False):
    """the network-simplex positioner with a pivot budget it actually exhausts (thoroughness 1-2 x number of nodes; the auxiliary
    graph needs 1-2 pivots per node): the run ends on the budget, sometimes exactly with its last pivot, and the balancing step
    works on whatever tree is there"""
    kw = dict(simple=True, loop_rate=0) if simple else dict(loop_rate=0.02)
    for i, (n, e) in enumerate(random_inputs(rng, count, 5 if simple else 4, 9, density=1.4, **kw)):
        cb = dict(p1=K.P1S[i % 3], p2=K.P2S[i % 2], p4="nspos", p5="poly", size=["fixed", "all"][i % 2], pat="odd", ns=[2, 1, 10][i % 3],
                  thor=[1, 1, 2, 1, 3][i % 5])
        cb.update(extra)
        yield apply(n, e, cb)


def c04_cases(tier, rng):
    combos = grid(p1=K.P1S, p2=K.P2S, p4=K.P4_SIZE_AWARE, p5=["straight", "poly", "noop"], virt=[0, 1],
                  size=["all", "fixed", "none", "some"], pat=["het", "het2", "wide1", "odd"], ns=[0, 1, 10], ls=[4, 1])
    inputs = [(n, e) for n, e, _ in K.family(fam_E(tier))]
    for (n, e), cb in rotate(inputs, combos, 4 if tier == "quick" else 6, rng):
        yield apply(n, e, cb)
    rnd = random_inputs(rng, 2500 if tier == "quick" else 30000, 4, 30)
    for (n, e), cb in rotate(rnd, combos, 1, rng):
        yield apply(n, e, cb)
    yield from nspos_small_budget(tier, rng, 3000 if tier == "quick" else 30000, {})
    # the network-simplex positioner's balancing step on trees in two or three layers (zigzag paths, small bipartite trees) with
    # one or two nodes much wider than the others: several zero-cut tree edges, each with room to move, whose shifts interact
    # through the separation edges (about 1 in 10^5 random graphs has this; here it is every input)
    for i in range(4000 if tier == "quick" else 40000):
        nt, nb = rng.randint(2, 4), rng.randint(2, 4)
        top, bot = list(range(nt)), list(range(nt, nt + nb))
        es, inn = [], [rng.choice(top)]
        rest = [v for v in top + bot if v != inn[0]]
        rng.shuffle(rest)
        while rest:
            v = rest.pop()
            cand = [u for u in inn if (u < nt) != (v < nt)]
            if not cand:
                rest.insert(0, v)
                continue
            u = rng.choice(cand)
            es.append((u, v) if u < nt else (v, u))
            inn.append(v)
        if rng.random() < 0.3:
            es.append((rng.choice(top), rng.choice(bot)))          # one extra edge: not a tree any more
        if rng.random() < 0.3:
            leaf = nt + nb
            es.append((rng.choice(bot), leaf))                     # a third layer
        rng.shuffle(es)
        n, e = K.canon(es)
        c = apply(n, e, dict(p1=K.P1S[i % 3], p2=K.P2S[i % 2], p4="nspos", p5=["straight", "poly"][i % 2], ns=[2, 0, 12, 1][i % 4], ls=4))
        c["smap"] = [[1, rng.choice([2, 2, 2, 4, 16, 3]), 6] for _ in range(n)]
        yield c
    # fractional NodeSpacing (0.25, 0.5, 1.75, 2.5) with odd widths, for the positioners that compute in floating point
    combos_f = grid(p1=K.P1S, p2=K.P2S, p4=["sink", "valign", "pack"], p5=["straight"], size=["all", "fixed"], pat=["odd", "het"], ns=[1, 2, 7, 10], nsd=[4])
    for (n, e), cb in rotate(random_inputs(rng, 1500 if tier == "quick" else 15000, 4, 16), combos_f, 1, rng):
        yield apply(n, e, cb)
    # structured families: the block structures that make the positioners iterate (staircases of blocks, ladders,
    # caterpillars, trees, grids, complete bipartite layers) do not occur in small exhaustive or random inputs
    shaped = [K.staircase(k, sf, fan) for k in range(2, 9 if tier == "quick" else 13) for sf in (True, False) for fan in (1, 2)]
    shaped += [K.ladder(L, w, tw) for L in (3, 5, 8) for w in (2, 3) for tw in (True, False)]
    shaped += [K.caterpillar(n, d) for n in (6, 10, 16) for d in ("out", "in")] + [K.binary_tree(k, d) for k in (3, 4) for d in ("out", "in")]
    shaped += [K.grid(w, h) for w in (2, 3, 4) for h in (2, 3, 4)] + [K.bipartite(a, b) for a in (2, 3, 4) for b in (2, 3, 4)]
    combos_s = grid(p1=["dfs"], p2=K.P2S, p4=K.P4_SIZE_AWARE, p5=["straight"], size=["fixed", "all", "none"], pat=["het", "wide1", "odd"], ns=[0, 2, 10])
    for n, e in shaped:
        for cb in combos_s:
            yield apply(n, e, cb)


def c05_cases(tier, rng):
    combos = grid(p1=K.P1S, p2=K.P2S, p4=K.P4_ALL, p5=["straight", "poly", "ortho"], virt=[0, 1],
                  size=["all", "fixed"], pat=["het", "odd"])
    inputs = [(n, e) for n, e, r in K.family(fam_E(tier))]
    for (n, e), cb in rotate(inputs, combos, 4 if tier == "quick" else 6, rng):
        yield apply(n, e, cb)
    rnd = random_inputs(rng, 2000 if tier == "quick" else 25000, 4, 20)
    for (n, e), cb in rotate(rnd, combos, 1, rng):
        yield apply(n, e, cb)
    yield from spline_cases(tier, rng, 500 if tier == "quick" else 3000)
    # touching layers (LayerSpacing 0) and touching nodes (NodeSpacing 0) under the spline router: the band between two layers
    # has no height; a call that does return (some hang: known findings of C01, whose business the aborts are) must still
    # attach its routes.  Fixed and per-node sizes, all positive.
    combos_t = grid(p1=K.P1S, p2=K.P2S, p4=["sink", "valign", "pack", "nspos"], p5=["splines"], size=["fixed", "all"], pat=["odd", "unit"], ns=[0, 2], ls=[0, 0, 1])
    touch = random_inputs(rng, 350 if tier == "quick" else 3000, 2, 8, density=1.2, loop_rate=0.02)
    for (n, e), cb in rotate(touch, combos_t, 1, rng):
        c = apply(n, e, cb)
        c["budgetms"] = 1500
        yield c
    for (n, e), cb in rotate(shaped_inputs(tier), combos, 4, rng):
        yield apply(n, e, cb)


def spline_cases(tier, rng, count):
    """the spline router on the inputs where its routes can go wrong without the router aborting: several components
    (component shift), parallel / antiparallel pairs (edges sharing their end nodes), reversed and long edges; uniform
    sizes, because zero-size nodes make the router abort (known findings of C01)"""
    combos = grid(p1=K.P1S, p2=K.P2S, p4=["sink", "valign", "pack", "bk"], p5=["splines"], size=["fixed", "all"], pat=["odd"], ns=[2, 10], ls=[4, 10])
    pool = [(n, e) for n, e, r in K.family("E44") if (r["conn"] == 0 or r["simple"] == 0) and r["loops"] == 0 and len(e) >= 3]
    rng.shuffle(pool)
    for (n, e), cb in rotate(pool[:count], combos, 1, rng):
        yield apply(n, e, cb)


def c06_cases(tier, rng):
    combos = grid(p1=K.P1S, p2=K.P2S, p4=K.P4_SIZE_AWARE, p5=["straight", "poly", "ortho"],
                  size=["all", "fixed"], pat=["het", "het2", "odd"], virt=[0, 1], ns=[2, 0, 7], nsd=[1, 4])
    inputs = [(n, e) for n, e, r in K.family(fam_E(tier))]
    for (n, e), cb in rotate(inputs, combos, 4 if tier == "quick" else 6, rng):
        yield apply(n, e, cb)
    rnd = random_inputs(rng, 2000 if tier == "quick" else 25000, 5, 20)
    for (n, e), cb in rotate(rnd, combos, 1, rng):
        yield apply(n, e, cb)
    yield from spline_cases(tier, rng, 300 if tier == "quick" else 2000)
    for (n, e), cb in rotate(shaped_inputs(tier), combos, 4, rng):
        yield apply(n, e, cb)
    yield from bend_vs_neighbour_component(tier, rng, 800 if tier == "quick" else 8000)


def bend_vs_neighbour_component(tier, rng, count):
    """a component with long edges (bends may stick out to the right of every real node) followed by a component made of two
    very large nodes: a bend of the first must not end up inside a node of the second (the component shift has to count
    helper nodes whether or not they are in the output)"""
    small = [(20, 40), (10, 20), (20, 90), (30, 10), (30, 30), (10, 10)]
    big = [(190, 480), (80, 370)]
    out = 0
    while out < count:
        n1, e1 = K.random_multigraph(rng, 4, 7, density=rng.choice([1.3, 1.6, 2.0]), connected=True, loop_rate=0)
        n, e = K.canon(list(map(tuple, e1)) + [(n1 + 1, n1 + 2)])
        if n != n1 + 2:
            continue
        c = case(n, e, p1=rng.choice(K.P1S), p2=rng.choice(K.P2S), p4=rng.choice(K.P4_SIZE_AWARE), p5="poly",
                 ns=rng.choice([2, 10]), ls=rng.choice([4, 10]), virt=rng.choice([0, 0, 1]))
        c["smap"] = [[1, small[i % len(small)][0], small[i % len(small)][1]] for i in range(n1)] + [[1, w, h] for w, h in big]
        if c["p4"] == "nspos" and n + len(e) > NSPOS_MAX:
            c["p4"] = "sink"
        c["budgetms"] = budget_ms(n, len(e), c["p4"])
        out += 1
        yield c


def c14_cases(tier, rng):
    combos_dfs = grid(p1=["dfs", "dfsrand", "randdfs"], p2=K.P2S, p4=["valign"], p5=["straight"])
    combos_all = grid(p1=K.P1S, p2=K.P2S, p4=["valign"], p5=["straight"])
    for n, e, r in K.family(fam_E(tier)):
        if r["acyc"] == 1:
            for cb in combos_all:
                yield apply(n, e, cb)
        else:
            for cb in combos_dfs:
                yield apply(n, e, cb)
    # five nodes: the smallest size at which a search tree can be rooted at a node that a later tree reaches
    five = [(n, e) for n, e, r in K.family("E55") if r["n"] == 5 and r["acyc"] == 0]
    rng.shuffle(five)
    for (n, e), cb in rotate(five[:5000 if tier == "quick" else len(five)], combos_dfs, 1, rng):
        yield apply(n, e, cb)
    rnd = random_inputs(rng, 2000 if tier == "quick" else 30000, 4, 30, density=1.6) + \
        random_inputs(rng, 2500 if tier == "quick" else 30000, 5, 9, density=1.5, loop_rate=0.02)
    for (n, e), cb in rotate(rnd, combos_all, 1, rng):
        yield apply(n, e, cb)


def c16_cases(tier, rng):
    combos = grid(p1=K.P1S, p2=K.P2S, p4=["valign", "pack"], p5=["poly", "straight", "ortho", "noop"], virt=[1],
                  size=["all", "fixed", "none"], pat=["het", "het2", "odd", "wide1"], ns=[0, 1, 10])
    inputs = [(n, e) for n, e, r in K.family(fam_E(tier)) if r["conn"] == 1]
    for (n, e), cb in rotate(inputs, combos, 4 if tier == "quick" else 6, rng):
        yield apply(n, e, cb)
    rnd = random_inputs(rng, 2000 if tier == "quick" else 25000, 4, 30, connected=True)
    for (n, e), cb in rotate(rnd, combos, 1, rng):
        yield apply(n, e, cb)
    for (n, e), cb in rotate(shaped_inputs(tier), combos, 4, rng):
        yield apply(n, e, cb)
    # the property does not depend on how the bands were ordered: also without an ordering phase (OrderingNoop: long edges stay
    # unbroken, no helper nodes, every node keeps in-layer position 0 - whatever the positioner reads from the orderer is unset)
    combos_n = grid(p1=K.P1S, p2=K.P2S, p3=["noop"], p4=["valign", "pack"], p5=["straight", "noop"], virt=[1, 0],
                    size=["all", "fixed"], pat=["het", "odd", "wide1"], ns=[0, 1, 10])
    noord = [(n, e) for n, e, r in K.family("E44") if r["conn"] == 1 and len(e) >= 2]
    rng.shuffle(noord)
    for (n, e), cb in rotate(noord[:600 if tier == "quick" else 3000] + random_inputs(rng, 400 if tier == "quick" else 4000, 4, 14, connected=True), combos_n, 1, rng):
        yield apply(n, e, cb)
    # the spline router too (its control points can lie left of every node): positive sizes and spacings, where it cannot hang
    combos_s = grid(p1=K.P1S, p2=K.P2S, p4=["valign", "pack"], p5=["splines"], virt=[1], size=["all", "fixed"], pat=["odd"], ns=[1, 10], ls=[4, 10])
    sp = random_inputs(rng, 1200 if tier == "quick" else 12000, 3, 10, connected=True, density=1.3, loop_rate=0.02)
    for (n, e), cb in rotate(sp, combos_s, 1, rng):
        yield apply(n, e, cb)


def c11_cases(tier, rng):
    combos = grid(p1=K.P1S, p2=["lp"], p4=["valign", "sink"], p5=["straight"], size=["all", "none"], ls=[3])
    inputs = [(n, e) for n, e, r in K.family(fam_E(tier))]
    for (n, e), cb in rotate(inputs, combos, 4 if tier == "quick" else 6, rng):
        yield apply(n, e, cb)
    rnd = random_inputs(rng, 2000 if tier == "quick" else 30000, 4, 30, density=1.5) + \
        random_inputs(rng, 1000 if tier == "quick" else 20000, 5, 30, acyclic=True, connected=True, loop_rate=0)
    for (n, e), cb in rotate(rnd, combos, 1, rng):
        yield apply(n, e, cb)
    for (n, e), cb in rotate(shaped_inputs(tier), combos, 2, rng):
        yield apply(n, e, cb)
    # long directed paths (more nodes than any fixed-size stack, mask or table would hold): chains, a cycle, a spine with leaves,
    # ladders - the search for the longest path goes as deep as the path is long
    # (TLC's evaluation of the layer-1 predicates is cubic in the path length: the quick tier stays below 80 nodes)
    deep = [K.chain(k) for k in ((65, 70) if tier == "quick" else (64, 65, 66, 70, 129, 130, 257))]
    deep += [K.canon([(i, (i + 1) % 70) for i in range(70)])] + ([K.ladder(70, 2)] if tier != "quick" else [])
    deep.append(K.canon([(i, i + 1) for i in range(66)] + [(i, 100 + i) for i in range(0, 66, 6)]))
    for n, e in deep:
        for p1 in ("greedy", "dfs"):
            yield apply(n, e, dict(p1=p1, p2="lp", p4="valign", p5="straight", size="fixed", ls=3))


def c10_cases(tier, rng):
    combos = grid(p1=K.P1S, p2=["ns"], p4=["valign"], p5=["straight"], size=["all", "none"], ls=[3], thor=[-1, 1, 4], cert=[1])
    inputs = [(n, e) for n, e, r in K.family(fam_E(tier))]
    for (n, e), cb in rotate(inputs, combos, 3 if tier == "quick" else 4, rng):
        yield apply(n, e, cb)
    simple = [(n, e) for n, e, r in K.family("S56") if r["n"] == 5 and len(r["e"]) >= 5]
    rng.shuffle(simple)
    for (n, e), cb in rotate(simple[:3000 if tier == "quick" else 40000], combos, 1, rng):
        yield apply(n, e, cb)
    nr = 2500 if tier == "quick" else 40000
    rnd = random_inputs(rng, nr, 5, 12, density=1.5, connected=True, acyclic=True, loop_rate=0) + \
        random_inputs(rng, nr, 6, 40, density=1.4) + \
        [K.bipartite(a, b) for a in range(2, 6) for b in range(2, 6)] + [K.grid(w, h) for w in range(2, 6) for h in range(2, 6)]
    for (n, e), cb in rotate(rnd, combos, 1, rng):
        yield apply(n, e, cb)
    # plateaus: runs of degenerate pivots (tight entering edge, nothing moves) before an improving one need room - they are
    # rare below 10 nodes (0 of 30 000 graphs with 6 nodes) and common at 20-40: connected DAGs of 24-40 nodes, default budget
    big = random_inputs(rng, 7000 if tier == "quick" else 60000, 24, 40, density=1.6, connected=True, acyclic=True, loop_rate=0)
    combos_b = grid(p1=K.P1S, p2=["ns"], p4=["valign"], p5=["straight"], size=["none"], ls=[3], thor=[-1, -1, 8], cert=[1])
    for (n, e), cb in rotate(big, combos_b, 1, rng):
        yield apply(n, e, cb)


NAME_STYLES = {
    "plain": None,
    "helper": lambda n: (["V1", "NE0", "V2", "NE1", "NE2", "V3", "NE3", "NE4", "V4", "NE5"] + ["V%d" % i for i in range(5, 60)])[:n],
    # identifiers whose concatenations collide ("a" + "ab" = "aa" + "b", "1" + "12" = "11" + "2"): a key built by joining two IDs
    # identifies two different node pairs
    "concat": lambda n: (["a", "b", "ab", "ba", "aa", "bb", "aab", "aba", "abb", "baa", "bab", "bba", "aaa", "bbb"] + ["a" * (i // 2) + "b" * (i - i // 2) for i in range(8, 80)])[:n],
    "digits": lambda n: ["%d" % i for i in range(1, n + 1)] if n >= 11 else (["1", "11", "12", "2", "21", "111", "112", "121", "211", "22"])[:n],
    "weird": lambda n: (["", "x" * 300, "\u30ce\u30fc\u30c9", "a b", "\"q\"", "tab\t", "\u0000z", "\U0001F600"] + ["w%d" % i for i in range(60)])[:n],
}


def c01_cases(tier, rng):
    axes = dict(p1=["greedy", "greedyrand", "dfs", "dfsrand"], p2=K.P2S, p4=K.P4_ALL, p5=["poly", "straight", "ortho", "noop", "splines"],
                size=["none", "fixed", "all", "some", "nomap", "fixed+some", "fixed+all", "fixed+zero"], pat=["het", "het2", "wide1", "odd"], ns=[0, 1, 10], ls=[0, 1, 10],
                thor=[0, 1, -1], virt=[0, 1], names=["plain", "helper", "weird", "concat", "digits"])

    def combo():
        cb = {k: rng.choice(v) for k, v in axes.items()}
        if cb["p5"] == "splines" and rng.random() < 0.8:
            cb["p5"] = rng.choice(["poly", "straight", "ortho"])   # the spline router aborts often (known findings): smaller share
        return cb

    def mk(n, e, cb):
        cb = dict(cb)
        style = cb.pop("names")
        c = apply(n, e, cb)
        if NAME_STYLES[style]:
            c["names"] = NAME_STYLES[style](n)
        c["seed"] = rng.randrange(1 << 30)
        c["oo"] = rng.choice([0, 0, 1])
        c["nsd"] = rng.choice([1, 1, 4, 2])      # NodeSpacing ns, ns/4 or ns/2: 0.25, 0.5, 2.5, 5 ...
        c["budgetms"] = budget_ms(n, len(e), c["p4"])
        return c
    inputs = [(n, e) for n, e, _ in K.family(fam_E(tier))]
    for n, e in inputs:
        for _ in range(3 if tier == "quick" else 4):
            yield mk(n, e, combo())
    for n, e in random_inputs(rng, 2500 if tier == "quick" else 40000, 5, 40, density=1.4):
        yield mk(n, e, combo())
    # deep and narrow: 5-12 layers of 2-4 nodes, sparse, shuffled edge lists - the ordering heuristics' inner loops (median
    # sweeps, transposition until nothing improves) need the most passes here, where an exchange in one layer makes an
    # exchange in the layer above profitable only on the next pass (1 in 7 000 of these needs more transposition passes than
    # its widest layer has nodes)
    for i in range(14000 if tier == "quick" else 140000):
        n, e = K.deep_narrow(rng, rng.randint(5, 12), rng.choice([3, 3, 3, 2, 4]))
        cb = combo()
        if cb["p5"] == "splines" or cb["p4"] == "nspos":
            cb.update(p5="poly", p4="sink")
        cb["names"] = "plain"
        yield mk(n, e, cb)
    # the spline router where its corridors are well-formed (positive sizes and spacings, size-aware positioner): no known
    # finding covers these, a hang or panic here is a violation (regression family of the repairs e4dc109 and 85cb9a1)
    for n, e in random_inputs(rng, 800 if tier == "quick" else 12000, 4, 14, density=1.3):
        cb = combo()
        cb.update(p4=rng.choice(K.P4_SIZE_AWARE), p5="splines", ns=rng.choice([1, 2, 10]), ls=rng.choice([1, 4, 10]),
                  size=rng.choice(["fixed", "all", "fixed+some", "fixed+all"]), pat=rng.choice(["odd", "unit"]))
        yield mk(n, e, cb)
    # inputs that failed before a repair and pass since: run without known-finding matching
    rp = os.path.join(core.VERIF, "regress", "C01.json")
    if os.path.exists(rp):
        with open(rp) as fh:
            for r in json.load(fh)["cases"]:
                c = case(r["n"], r["edges"], **{k: r[k] for k in ("p1", "p2", "p4", "p5", "ns", "ls", "fixed", "smap")})
                c["nokf"] = 1
                c["budgetms"] = budget_ms(c["n"], len(c["edges"]), c["p4"])
                yield c
    # size sweeps: long chains (recursion depth), ladders with more than 64 layers, wide layers, larger random graphs
    big = [K.chain(n) for n in ((200, 1000) if tier == "quick" else (200, 1000, 3000))]
    big += [K.ladder(L, w) for L, w in (((70, 2), (66, 3)) if tier == "quick" else ((70, 2), (66, 3), (100, 3), (130, 2)))]
    big += [K.bipartite(a, b) for a, b in ((6, 6), (3, 12))] + [K.grid(5, 5), K.binary_tree(6, "out"), K.binary_tree(6, "in")]
    big += [K.random_multigraph(rng, n, n, density=1.2) for n in ((60, 90) if tier == "quick" else (60, 90, 120, 150))]
    for n, e in big:
        for p4 in (["sink", "bk"] if tier == "quick" else ["sink", "bk", "valign", "pack"]):
            cb = combo()
            cb.update(p4=p4, p5="poly", thor=-1, names="plain", p1=rng.choice(["greedy", "dfs"]))
            yield mk(n, e, cb)


def c12_cases(tier, rng):
    combos = grid(p1=K.P1S, p2=K.P2S, p4=K.P4_SIZE_AWARE, p5=["poly"], size=["all", "fixed", "none"], pat=["het", "odd"], ns=[1, 5], mon=[1])
    simple = [(n, e) for n, e, r in K.family("S56") if len(r["e"]) >= 5]
    rng.shuffle(simple)
    for (n, e), cb in rotate(simple[:6000 if tier == "quick" else 60000], combos, 1, rng):
        yield apply(n, e, cb)
    rnd = random_inputs(rng, 2500 if tier == "quick" else 30000, 6, 30, density=1.5, simple=True, loop_rate=0)
    rnd += [K.bipartite(a, b) for a in range(2, 7) for b in range(2, 7)]
    for (n, e), cb in rotate(rnd, combos, 1, rng):
        yield apply(n, e, cb)
    yield from nspos_small_budget(tier, rng, 4000 if tier == "quick" else 30000, dict(mon=1), simple=True)
    # sparse graphs with edges pointing both ways (oriented trees plus 0-2 extra edges, 7-10 nodes, shuffled edge lists): sources
    # and sinks in the MIDDLE layers, which the median sort skips over (median -1) - exchanges across a skipped node are where
    # an incremental crossing count goes stale.  Network-simplex layering (longest path puts every sink at the bottom).
    for i in range(9000 if tier == "quick" else 90000):
        n = rng.randint(7, 10)
        es = []
        for v in range(1, n):
            u = rng.randrange(v)
            es.append((u, v) if rng.random() < 0.5 else (v, u))
        have = set(es) | {(b, a) for a, b in es}
        for _ in range(rng.choice([0, 0, 1, 2])):
            a, b = rng.sample(range(n), 2)
            if (a, b) not in have:
                es.append((a, b))
                have |= {(a, b), (b, a)}
        rng.shuffle(es)
        nn, ee = K.canon(es)
        yield apply(nn, ee, dict(p1=K.P1S[i % 3], p2="ns", p4=["sink", "valign", "pack"][i % 3], p5="poly", size=["fixed", "all"][i % 2], pat="odd", ns=2, mon=1))
    # more than 64 layers, at least two nodes per layer, twisted rungs (forces crossings in the high layers)
    tall = [K.ladder(L, w) for L, w in (((66, 2), (70, 2)) if tier == "quick" else ((66, 2), (70, 2), (70, 3), (100, 2), (130, 3)))]
    for n, e in tall:
        for p2 in K.P2S:
            for p4 in (["valign", "sink"] if tier == "quick" else K.P4_SIZE_AWARE):
                c = apply(n, e, dict(p1="dfs", p2=p2, p4=p4, p5="poly", size="fixed", ns=2, mon=1))
                yield c
    # long chains of blocks (more than any small round or recursion limit a positioner might have): spines with a source per level,
    # 12-60 levels, one node much wider than the others (equal widths would hide an inversion: the nodes only tie in x)
    for lv in ((12, 35, 36, 40) if tier == "quick" else (12, 24, 33, 34, 35, 36, 40, 48, 60)):
        n, e = K.rail_caterpillar(lv)
        for wide_at in (18, 9, 2 * lv - 1, lv, 3):
            for p2, p4 in (("ns", "sink"), ("lp", "sink"), ("ns", "valign")) if tier == "quick" else [(a, b) for a in K.P2S for b in ("sink", "valign", "pack")]:
                c = apply(n, e, dict(p1="dfs", p2=p2, p4=p4, p5="poly", ns=2, mon=1))
                c["smap"] = [[1, 18 if i == wide_at else 2, 4] for i in range(n)]
                yield c
    # wide layers: two (or three) layers of a few dozen nodes each, sparsely joined - rings u_i -> v_i, u_i -> v_(i+1), and random
    # sparse bipartite graphs - so that the bilayer counter works on layer pairs of 24x24 .. 70x60 nodes
    wide = []
    for k in ((24, 33, 48, 66) if tier == "quick" else (24, 31, 32, 33, 40, 48, 64, 66, 70)):
        wide.append(K.canon([(i, k + i) for i in range(k)] + [(i, k + (i + 1) % k) for i in range(k)]))
        wide.append(K.canon([(i, k + i) for i in range(k)] + [(i, k + (i * 7 + 3) % k) for i in range(k)] +
                            [(k + i, 2 * k + (i * 5 + 1) % k) for i in range(k)]))
    for _ in range(6 if tier == "quick" else 60):
        a, b = rng.randint(20, 70), rng.randint(20, 60)
        es = set()
        for i in range(a):
            for j in rng.sample(range(b), rng.choice([1, 1, 2])):
                es.add((i, a + j))
        for j in range(b):
            if not any(v == a + j for _, v in es):
                es.add((rng.randrange(a), a + j))
        wide.append(K.canon(sorted(es)))
    for n, e in wide:
        for p2 in (["ns"] if tier == "quick" else K.P2S):
            for p4 in (["valign"] if tier == "quick" else ["valign", "sink"]):
                yield apply(n, e, dict(p1="dfs", p2=p2, p4=p4, p5="poly", size="fixed", ns=2, mon=1))


def c13_cases(tier, rng):
    combos = grid(p1=K.P1S, p2=K.P2S, p4=K.P4_SIZE_AWARE, p5=["poly"], size=["all", "fixed", "none"], pat=["het", "odd"], ns=[1, 5])
    trees = [(n, e) for f in (("T4", "T5", "T6")) for n, e, r in K.family(f)]
    for (n, e), cb in rotate(trees, combos, 3 if tier == "quick" else 12, rng):
        yield apply(n, e, cb)
    rnd = []
    for _ in range(1200 if tier == "quick" else 15000):
        rnd.append(K.random_tree(rng, rng.randint(7, 60), rng.choice(["out", "in"])))
    for d in ("out", "in"):
        rnd += [K.caterpillar(n, d) for n in (10, 25, 60)] + [K.binary_tree(k, d) for k in (3, 4, 5, 6)]
    for (n, e), cb in rotate(rnd, combos, 1 if tier == "quick" else 2, rng):
        yield apply(n, e, cb)
    # spiders and brooms of 8-17 nodes (a thin branch next to a branch ending in a star of leaves), every branch profile of
    # the table x several edge orders; the network-simplex positioner gets the larger share because its balancing pass is
    # the one that moves whole subtrees
    profiles = [((a1, b1), (a2, b2)) for a1 in (1, 2, 3) for b1 in (0, 2, 4) for a2 in (1, 2, 3) for b2 in (0, 3, 4)]
    profiles += [((2, 0), (2, 3), (1, 2)), ((3, 0), (2, 4), (1, 0)), ((1, 4), (3, 0), (2, 2)), ((2, 2), (2, 2), (2, 2))]
    combos_b = grid(p1=["dfs"], p2=["ns"], p4=["nspos", "nspos", "sink", "valign"], p5=["poly"], size=["fixed", "all"], pat=["het"], ns=[2, 10])
    brooms = []
    for prof in profiles:
        if 1 + sum(a + b for a, b in prof) > 17:
            continue
        for d in ("out", "in"):
            for _ in range(4 if tier == "quick" else 20):
                brooms.append(K.broom(rng, prof, d))
    for (n, e), cb in rotate(brooms, combos_b, 2, rng):
        yield apply(n, e, cb)
    # wide trees: two adjacent layers of more than 64 nodes each (root -> a_0..a_(k-1), a_i -> b_i, b_0 -> c): positions
    # beyond any machine-word bit set or small table; edge lists in natural order, with the last two entries swapped
    # (the bottom-up initial order then starts with a crossing at the far end), and shuffled
    for k in ((65, 70) if tier == "quick" else (63, 64, 65, 66, 70, 100, 129)):
        base = [(0, 1 + i) for i in range(k)] + [(1 + i, 1 + k + i) for i in range(k)] + [(1 + k, 1 + 2 * k)]
        sw = list(base)
        sw[2 * k - 1], sw[2 * k - 2] = sw[2 * k - 2], sw[2 * k - 1]
        sh = list(base)
        rng.shuffle(sh)
        for es in (base, sw, sh):
            for d in ("out", "in") if tier != "quick" else ("out",):
                ee = es if d == "out" else [(v, u) for u, v in es]
                n, e = K.canon(ee)
                for p4 in ("sink", "valign"):
                    yield apply(n, e, dict(p1="dfs", p2="ns", p4=p4, p5="poly", size="fixed", ns=2))


RULES = {
    "C12": "simple graphs: S(5,6) lists with >= 5 edges (TLC-generated, sampled in quick), random simple graphs of 6-30 nodes, complete bipartite graphs, and twisted ladders with 66-130 layers (layer indices >= 64) x both layerers x size-aware positioners x Polyline, with a recording monitor, rings and sparse bipartite graphs with 24-70 nodes per layer (wide layers), and 4000/30000 small simple graphs under the network-simplex positioner with thoroughness 1-3 (pivot budget exhausted); TLC recounts the crossings of the returned drawing per pair of adjacent bands (strict inversions of segment end points) and compares with the sum of the reported 'crossings' events; judged when every polyline has one point per band it touches; non-trivial = reported count > 0",
    "C13": "every rooted tree on 4-6 nodes (parent functions) in both orientations and every edge order (TLC-generated T4,T5,T6, canonical form), random recursive trees of 7-60 nodes with shuffled edge lists, caterpillars, complete binary trees, spiders and brooms of 8-17 nodes (85 branch profiles x orientation x 4/20 edge orders, half of them with the network-simplex positioner) x both breakers x both layerers x size-aware positioners x Polyline; TLC counts the crossings of the drawing; non-trivial = a node of degree >= 3 and n >= 4",
    "C01": "E(4,4)/E(4,5) x 3-4 random points of the full option grid (3 breakers incl. seeded random greedy x 2 layerers x 9 positioners x 5 routers x 5 size modes x 4 size patterns x NodeSpacing/LayerSpacing {0,1,10} x thoroughness {0,1,default} x virtual-node output x node-ID alphabets {plain, helper-like V<k>/NE<k>, empty/300-char/Unicode/control}), random multigraphs of 5-40 nodes, and size sweeps (chains up to 1000/3000 nodes, ladders with 66-130 layers, bipartite, grid, binary trees, random graphs up to 90/150 nodes); each case runs in an isolated worker with a wall-clock budget equal to the spec's BudgetMs and a heap budget; non-trivial = >= 2 nodes and a non-loop edge",
    "C10": "E(4,4)/E(4,5), 5-node simple lists of S(5,6), random connected DAGs (5-12 nodes), random multigraphs (6-40 nodes), complete bipartite and grid DAGs x both breakers x NetworkSimplex x thoroughness {default,1,4} (every family rotates through positioners, routers, the output option and a forced B&K layout with other positioners); the optimum is MinTotalSpan (brute force in TLC) for n <= 5 and an LP-duality certificate checked in TLC (CertOK) beyond; runs that ended on the iteration cap (hook) are not judged; non-trivial = at least one pivot executed",
    "C11": "E(4,4)/E(4,5) x both breakers x LongestPath x two positioners, plus random multigraphs and random connected DAGs up to 30 nodes (rotating through positioners, routers, output option), cycle breakers incl. DepthFirst combined with the greedy node-choice option; band-from-bottom of every node compared by TLC with the longest path to a sink (GraphOps!HeightToSink) in the drawn orientation; non-trivial = a component with >= 3 nodes and >= 2 bands",
    "C02": "inputs: every canonical multigraph edge list of E(4,4) (quick) / E(4,5) (thorough) generated by TLC from Inputs.tla x rotating option grid (breakers x layerers x positioners x routers x size options x virtual-node output), plus seeded random multigraphs of 4-14 nodes (size modes incl. a fixed size with a map that lists nodes with size 0 x 0; routers incl. splines and none); distinct by canonical list x options; non-trivial = input has a cycle, a self-loop, a parallel/antiparallel pair, or a routed edge with bends",
    "C03": "E(4,4)/E(4,5) x breakers x layerers x 5 positioners x heterogeneous heights x LayerSpacing {1,10}, plus random multigraphs and random connected DAGs up to 30 nodes, structured families (staircases, ladders, trees, grids, paths of different lengths between two nodes with pendant leaves) and 1500/15000 'stretched' inputs (a short path with a multi-edge tail beside a long path: edges between balanced nodes stretched over several layers); every router and no routing; non-trivial = some component has >= 2 bands",
    "C04": "E(4,4)/E(4,5) x breakers x layerers x the four size-aware positioners x four width/height patterns (zero sizes, one very wide node, odd widths) x NodeSpacing {0,1,10}, plus random multigraphs up to 30 nodes, plus structured families (block staircases of 2-8/12 stages in both edge orders, ladders, caterpillars, binary trees, grids, complete bipartite graphs) x both layerers x the four positioners x size modes x NodeSpacing {0,2,10}, x output option x {straight, polyline, none}, LayerSpacing {1,4}; plus 3000/30000 small inputs under the network-simplex positioner with thoroughness 1-3; non-trivial = >= 2 components or two nodes in one band",
    "C05": "E(4,4)/E(4,5) x all positioners (incl. the four forced B&K layouts) x {straight, polyline, ortho} x size patterns, plus random multigraphs up to 20 nodes, plus the spline router on 500 (thorough: 3000) lists of E(4,4) with several components or parallel/antiparallel pairs (uniform sizes; its process aborts are C01's known findings) and heterogeneous odd sizes; x output option; non-trivial = a reversed edge, a long edge or >= 2 components",
    "C06": "E(4,4)/E(4,5) x size-aware positioners x {straight, polyline, ortho} x heterogeneous widths AND heights x virtual-node output, plus random multigraphs up to 20 nodes x NodeSpacing {0,2,7}, the spline router on multi-component / multi-edge lists, and 800/8000 inputs 'component with long edges followed by a component of two very large nodes'; non-trivial = a routed edge with more than two points",
    "C14": "every cyclic list of E(4,4)/E(4,5) x DepthFirst and every acyclic list x {Greedy, DepthFirst}, x both layerers, 5-node cyclic lists of E(5,5) (5000 sampled in quick, all 5-node ones in thorough), plus random multigraphs of 5-9 and up to 30 nodes (DepthFirst also combined with the greedy breaker's node-choice option, in either option order; rotating through positioners, routers, output option); non-trivial = >= 1 reversed edge or a parallel/antiparallel pair",
    "C16": "every connected list of E(4,4)/E(4,5) x {VAlign, PackRight} x width patterns x NodeSpacing {0,1,10} with helper nodes in the output, plus random connected multigraphs up to 30 nodes x {polyline, straight, ortho, none}, plus 1200/12000 connected inputs with the spline router (positive odd sizes); non-trivial = >= 2 bands and a band with >= 2 nodes",
}

ASSUME = [
    "TLC (tla2tools 1.8.0) evaluates the TLA+ predicates correctly; the CommunityModules Json reader is exact on integers below 2^31",
    "the conformance driver (harness/driver, injected with go build -overlay) reports the library's return values faithfully; coordinates are logged in units of 1/64 with a per-record exactness flag",
    "beyond the exhaustive bound the inputs are a seeded random sample",
]

def all_options_cases(tier, rng, count):
    """a slice of C01's family - small inputs x a random point of the WHOLE option space (every cycle breaker incl. the
    option combinations that must be ignored, layerer, positioner, router, size mode, spacings incl. 0, thoroughness, output
    option, name alphabet): every unary predicate is also judged on it, so that an interaction between two options that a
    property's own grid does not contain still meets the property's oracle (the Applies predicates decide relevance)"""
    out = 0
    for c in c01_cases(tier, rng):
        if c["n"] + len(c["edges"]) > 60 or c.get("nokf"):
            continue
        if c["p5"] == "splines" and core.case_facts(c)["_degenerate_corridor_or_bk"]:
            continue                       # may hang (known findings of C01); C01 itself runs them
        c = dict(c)
        if c["virt"] == 1:
            c.pop("names", None)           # helper names + helper nodes in the output: ambiguous output (correction 18)
        if c["p2"] == "ns":
            c["cert"] = 1                  # C10 needs the optimality certificate of the harness
        out += 1
        yield c
        if out >= count:
            return


FAMILIES = {
    "C02": c02_cases, "C03": c03_cases, "C04": c04_cases, "C05": c05_cases, "C06": c06_cases,
    "C14": lambda tier, rng: vary(c14_cases(tier, rng)), "C16": c16_cases,
    "C11": lambda tier, rng: vary(c11_cases(tier, rng)), "C10": lambda tier, rng: vary(c10_cases(tier, rng)),
    "C01": c01_cases, "C12": c12_cases, "C13": c13_cases,
}


def run_unary(prop, tier, seed, replay):
    t0 = time.time()
    work = core.Work(prop)
    try:
        driver = core.build_driver(work)
        known = core.load_known()
        if replay:
            with open(replay) as fh:
                rp = json.load(fh)
            cs = [dict(rp["case"])]
        else:
            rng = random.Random(seed * 7919 + int(prop[1:]))
            dd = K.Dedup()
            cs = [c for c in FAMILIES[prop](tier, rng) if dd.fresh(c)]
            if prop != "C01":
                cs += [c for c in all_options_cases(tier, random.Random(seed * 104729 + int(prop[1:])), 2500 if tier == "quick" else 20000)
                       if dd.fresh(c)]
        if prop == "C01":
            # small inputs with a tight heap budget (a runaway allocation is caught in a fraction of a second),
            # the size sweeps with a large one
            small = [c for c in cs if c["n"] + len(c["edges"]) <= 120]
            big = [c for c in cs if c["n"] + len(c["edges"]) > 120]
            res = engine.run_layout_cases(work, driver, [prop], small, mem_mb=256)
            if big:
                res2 = engine.run_layout_cases(work, driver, [prop], big, tag="big", mem_mb=2000, nshards=min(16, len(big)))
                res = engine.merge_results(res, res2)
        else:
            res = engine.run_layout_cases(work, driver, [prop], cs)
        if prop == "C01" and not replay:
            # a Return later than the time budget is measured in wall-clock time: on a loaded machine a process can lose the
            # CPU for seconds.  Such cases are run again, one process at a time, and count only if they are late again.
            late = [v for v in res.violations if any(cl == "TimeBudget" for _, cl in v["clauses"])]
            if late:
                again = [{k: x for k, x in res.cases[v["case"]].items() if k not in ("case", "_sh")} for v in late]
                core.log("[C01] %d returns were later than their budget; running them again alone" % len(late))
                res2 = engine.run_layout_cases(work, driver, [prop], again, tag="late", nshards=1, mem_mb=2000)
                still = {json.dumps(core.case_signature(res2.cases[v["case"]]), sort_keys=True) for v in res2.violations}
                keep = []
                for v in res.violations:
                    if v in late and json.dumps(core.case_signature(res.cases[v["case"]]), sort_keys=True) not in still:
                        continue
                    keep.append(v)
                res.violations = keep
        models = []
        if not replay:
            if prop == "C02":
                models.append(engine.t1_model(work, tier))
            if prop in ("C03", "C04"):
                models.append(engine.t2_model(work, tier))
            if prop == "C14":
                models.append(engine.cyclebreak_model(work, tier))
            if prop == "C10":
                models.append(engine.netsimplex_model(work, tier))
            if prop == "C11":
                models.append(engine.longestpath_model(work, tier))
            if prop in ("C04", "C16"):
                models.append(engine.position_model(work, tier))
            if prop in ("C04", "C13"):
                models.append(engine.nspos_model(work, tier))
            if prop == "C04":
                models.append(engine.netsimplex_h_model(work, tier))
            if prop == "C05":
                models.append(engine.spline_corridor_model(work, tier))
            if prop == "C13":
                models.append(engine.wmedian_model(work, tier, "trees"))
            if prop == "C12":
                models.append(engine.wmedian_model(work, tier, "layered"))
            if prop in ("C02", "C03", "C04", "C05", "C06", "C10", "C11", "C12", "C13", "C14", "C16"):
                pd = engine.pipeline_diag(work, driver, cs, limit=400 if tier == "quick" else 4000)
                if pd:
                    models.append(pd)
        rule = RULES[prop]
        if prop != "C01" and not replay:
            rule += ("; plus an all-options slice: %d small inputs, each with a random point of the whole option space of C01 (every cycle "
                     "breaker incl. option combinations that must be ignored, layerer, positioner, router, size mode, spacings incl. 0, "
                     "thoroughness, output option, name alphabets), judged wherever the property applies" % (2500 if tier == "quick" else 20000))
        return engine.report(prop, res, known, tier, seed, {"exhaustive_family": fam_E(tier)}, ASSUME, t0, rule, level_models=models)
    finally:
        work.cleanup()
