#!/usr/bin/env python3
"""Self-test of the machinery (not a registered check): every repair of /repo is undone, one at a time, in a scratch
worktree outside /repo and /verif, and the check that is expected to notice must exit 1 with a VIOLATION line.

    python3 lib/selftest.py [name-substring ...]        (default: all of mutants/*.diff)

mutants/unfix-<commit>.diff is the diff of the `fix:` commit (applied in reverse).  The checks run with
VERIF_REPO=<scratch worktree> and VERIF_OUT=<scratch dir>, so neither /repo nor evidence/ and replays/ are touched.
Results are written to mutants/RESULTS.json.
"""
import json
import os
import shutil
import subprocess
import sys
import time

VERIF = os.path.dirname(os.path.dirname(os.path.abspath(__file__)))
WT = "/tmp/wt/selftest"
OUT = "/tmp/selftest-out"

# fix commit -> (what it repaired, checks expected to notice when it is undone)
EXPECT = {
    "6b6bfb8": ("D1 longest-path layers from the final layer count", ["C11"]),
    "63543e6": ("D2 pre-pass reverses parallel edges", ["C14"]),
    "b0c52e1": ("D4 greedy breaker reverses while ranging", ["C01"]),
    "97de873": ("D6 cut values accumulated", ["C10"]),
    "91fef1c": ("D5 tight tree marks kept between rounds", ["C03"]),
    "e5b2b21": ("D9 WithNodeSize zeroes unlisted nodes", ["C02"]),
    "59f3c5e": ("D3 components in map order", ["C07"]),
    "3938353": ("D3 self-loops restored in map order", ["C07"]),
    "b4491b6": ("D3 pre-pass reverses in map order", ["C07"]),
    "c808e53": ("D18 incident edge chosen in map order", ["C07"]),
    "6a99d58": ("D8c auxiliary nodes keyed by ID string", ["C08", "C01"]),
    "f0fbeb0": ("D8a no normalize after hbalance", ["C04", "C01"]),
    "e6c38e1": ("D8b centre coordinates used as left sides", ["C04"]),
    "36c615b": ("D12 sink coloring separation", ["C04"]),
    "93feb3f": ("D10 ortho bend below the node", ["C06"]),
    "f8d4449": ("D7 crossing counter 64-bit mask", ["C12"]),
    "6384e56": ("Triangulate overlap", ["C19"]),
    "00807a7": ("point on a triangulation diagonal located by a rounding-sensitive collinearity test", ["C19"]),
    "fb299aa": ("Shortest: end points on diagonals", ["C19"]),
    "2b00c71": ("FitSpline containment hole", ["C20"]),
    "e4dc109": ("spline corridor: tails of both layers", ["C01"]),
    "85cb9a1": ("spline corridor: starts below the upper layer", ["C01"]),
}


def sh(cmd, **kw):
    return subprocess.run(cmd, shell=True, text=True, capture_output=True, **kw)


def main():
    want = sys.argv[1:]
    names = sorted(f for f in os.listdir(os.path.join(VERIF, "mutants")) if f.endswith(".diff"))
    if want:
        names = [n for n in names if any(w in n for w in want)]
    res_path = os.path.join(VERIF, "mutants", "RESULTS.json")
    results = json.load(open(res_path)) if os.path.exists(res_path) else {}
    env = dict(os.environ, GOFLAGS="-mod=mod", GOPROXY="off", GOSUMDB="off", GOTOOLCHAIN="local", VERIF_REPO=WT, VERIF_OUT=OUT)
    for name in names:
        commit = name[len("unfix-"):-len(".diff")]
        what, checks = EXPECT[commit]
        sh("git -C /repo worktree remove --force %s" % WT)
        shutil.rmtree(OUT, ignore_errors=True)
        os.makedirs(OUT)
        r = sh("git -C /repo worktree add -q --detach %s HEAD" % WT)
        if r.returncode:
            print("cannot create worktree:", r.stderr)
            return 2
        try:
            r = sh("git -C %s apply -R %s" % (WT, os.path.join(VERIF, "mutants", name)))
            if r.returncode:
                print(name, "does not apply in reverse:", r.stderr.strip())
                results[commit] = dict(what=what, applies=False)
                continue
            b = sh("cd %s && go build ./... && go test -vet=off -count=1 ./... 2>&1 | tail -3" % WT, env=env)
            suite_ok = b.returncode == 0 and "FAIL" not in b.stdout
            entry = dict(what=what, applies=True, suite_passes_with_defect=suite_ok, checks={})
            for c in checks:
                t0 = time.time()
                p = sh("cd %s && ./check %s quick" % (VERIF, c), env=env)
                viol = [l for l in p.stdout.splitlines() if l.startswith("VIOLATION")]
                clause = [l for l in (p.stdout + p.stderr).splitlines() if "violations by clause" in l]
                entry["checks"][c] = dict(exit=p.returncode, violation_lines=len(viol), by_clause=clause[-1:] if clause else [],
                                          wall_s=round(time.time() - t0, 1))
                print("%s (%s): ./check %s quick -> exit %d, %d VIOLATION lines %s" % (commit, what, c, p.returncode, len(viol), clause[-1:] if clause else ""))
            entry["detected"] = any(v["exit"] == 1 and v["violation_lines"] > 0 for v in entry["checks"].values())
            results[commit] = entry
        finally:
            sh("git -C /repo worktree remove --force %s" % WT)
            shutil.rmtree(OUT, ignore_errors=True)
        with open(res_path, "w") as fh:
            json.dump(results, fh, indent=1, sort_keys=True)
            fh.write("\n")
    missed = [c for c, e in results.items() if e.get("applies") and not e.get("detected")]
    print("undone repairs not detected:", missed or "none")
    return 0


if __name__ == "__main__":
    sys.exit(main())
