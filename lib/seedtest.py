#!/usr/bin/env python3
"""Confirm a seeded change and run checks against it.

  seedtest.py <seed dir with patch.diff, demo_test.go, notes.md> <id> <property> [more properties to run ...]

1. in a scratch worktree of /repo (under /tmp, removed afterwards): the patch applies, the module builds, the
   unedited suite passes, the demonstration fails with the patch and passes without;
2. the patch is applied to /repo itself, the quick checks of the given properties run, and /repo is restored;
3. the seed is stored under /verif/seeded/<id>/ with meta.json (what it breaks, what it needs, what was run).
"""
import json
import os
import re
import shutil
import subprocess
import sys
import time

VERIF = os.path.dirname(os.path.dirname(os.path.abspath(__file__)))
ENV = dict(os.environ, GOFLAGS="-mod=mod", GOPROXY="off", GOSUMDB="off", GOTOOLCHAIN="local")


def sh(cmd, cwd=None, timeout=1800):
    p = subprocess.run(cmd, shell=True, cwd=cwd, env=ENV, capture_output=True, text=True, timeout=timeout)
    return p.returncode, p.stdout + p.stderr


def main():
    seed, sid, prop = sys.argv[1], sys.argv[2], sys.argv[3]
    others = sys.argv[4:]
    tier = os.environ.get("SEED_TIER", "quick")
    patch = os.path.join(seed, "patch.diff")
    demo = os.path.join(seed, "demo_test.go")
    head = open(demo).readline()
    m = re.search(r"(internal/[\w/]+)", head)
    demodir = m.group(1) if (m and "package autog_test" not in open(demo).read()) else "."
    m = re.search(r"-run\s+'?\"?([\w|^$.*]+)", head)
    runpat = m.group(1) if m else "."
    race = "-race " if "-race" in head else ""
    wt = "/tmp/sw-" + sid
    sh("git -C /repo worktree remove --force %s" % wt)
    shutil.rmtree(wt, ignore_errors=True)
    rc, out = sh("git -C /repo worktree add -q %s HEAD" % wt)
    assert rc == 0, out
    meta = {"id": sid, "property": prop, "confirmed": {}}
    try:
        rc, out = sh("git apply %s" % patch, cwd=wt)
        meta["confirmed"]["applies"] = rc == 0
        assert rc == 0, out
        rc, out = sh("go build ./... && go vet ./... >/dev/null 2>&1; go build ./...", cwd=wt)
        meta["confirmed"]["builds"] = rc == 0
        rc, out = sh("go test -vet=off -count=1 ./...", cwd=wt)
        meta["confirmed"]["suite_passes_with_change"] = rc == 0
        if rc != 0:
            print(out[-2000:])
        dst = os.path.join(wt, demodir, sid.lower() + "_demo_test.go")
        shutil.copy(demo, dst)
        rc1, out1 = sh("go test %s-vet=off -count=1 -run '%s' ./%s" % (race, runpat, demodir), cwd=wt)
        meta["confirmed"]["demo_fails_with_change"] = rc1 != 0
        sh("git apply -R %s" % patch, cwd=wt)
        rc2, out2 = sh("go test %s-vet=off -count=1 -run '%s' ./%s" % (race, runpat, demodir), cwd=wt)
        meta["confirmed"]["demo_passes_without_change"] = rc2 == 0
        if rc1 == 0 or rc2 != 0:
            print("DEMO PROBLEM\n--- with change:\n%s\n--- without:\n%s" % (out1[-1500:], out2[-1500:]))
    finally:
        sh("git -C /repo worktree remove --force %s" % wt)
        shutil.rmtree(wt, ignore_errors=True)
    print("confirmed:", json.dumps(meta["confirmed"]))
    # ---- run the checks against the change: either applied to /repo itself (SEED_IN_REPO=1: git -C /repo apply; checks;
    # git -C /repo checkout -- .), or - the default, which leaves /repo alone while other runs use it - applied to a second
    # scratch worktree that the checks build from (VERIF_REPO) with their evidence and replays sent to a scratch dir (VERIF_OUT)
    in_repo = os.environ.get("SEED_IN_REPO") == "1"
    results = {}
    env_extra = ""
    if in_repo:
        rc, out = sh("git -C /repo status --porcelain")
        assert out.strip() == "", "/repo is not clean: " + out
        rc, out = sh("git -C /repo apply %s" % patch)
        assert rc == 0, out
    else:
        wt2, out2dir = "/tmp/sw2-" + sid, "/tmp/sw2-out-" + sid
        sh("git -C /repo worktree remove --force %s" % wt2)
        shutil.rmtree(wt2, ignore_errors=True)
        shutil.rmtree(out2dir, ignore_errors=True)
        os.makedirs(out2dir)
        rc, out = sh("git -C /repo worktree add -q --detach %s HEAD && git -C %s apply %s" % (wt2, wt2, patch))
        assert rc == 0, out
        env_extra = "VERIF_REPO=%s VERIF_OUT=%s " % (wt2, out2dir)
    try:
        for p in [prop] + others:
            t0 = time.time()
            rc, out = sh("%s./check %s %s" % (env_extra, p, tier), cwd=VERIF, timeout=7200)
            viol = [l for l in out.splitlines() if l.startswith("VIOLATION")]
            clauses = [l.strip() for l in out.splitlines() if "violations by clause" in l]
            drift = [l for l in out.splitlines() if l.startswith(("[pipe] DRIFT", "[geom] DRIFT", "[mon] DRIFT", "[api] DRIFT"))]
            results[p] = {"exit": rc, "violation_lines": len(viol), "wall_s": round(time.time() - t0, 1), "by_clause": clauses[:1], "drift": drift[:1]}
            print("check %s %s -> exit %d, %d VIOLATION lines %s %s (%.0fs)" % (p, tier, rc, len(viol), clauses[:1], drift[:1], time.time() - t0))
            if rc == 2:
                print(out[-1500:])
    finally:
        if in_repo:
            sh("git -C /repo checkout -- . && git -C /repo clean -fdq")
        else:
            sh("git -C /repo worktree remove --force %s" % wt2)
            shutil.rmtree(wt2, ignore_errors=True)
            shutil.rmtree(out2dir, ignore_errors=True)
    rc, out = sh("git -C /repo status --porcelain")
    assert out.strip() == "", "/repo not restored: " + out
    dst = os.path.join(VERIF, "seeded", sid)
    os.makedirs(dst, exist_ok=True)
    for f in ("patch.diff", "demo_test.go", "notes.md"):
        if os.path.abspath(seed) == os.path.abspath(dst):
            break
        if os.path.exists(os.path.join(seed, f)):
            shutil.copy(os.path.join(seed, f), os.path.join(dst, f))
    mp = os.path.join(dst, "meta.json")
    old = {}
    if os.path.exists(mp):
        old = json.load(open(mp))
    meta["checks_run"] = dict(old.get("checks_run", {}), **{"%s %s" % (p, tier): r for p, r in results.items()})
    meta["needs"] = old.get("needs", "see notes.md")
    meta["ran"] = ["go build ./...", "go test -vet=off -count=1 ./... (with the change)", "demo with and without the change in a scratch worktree",
                   ("git -C /repo apply patch.diff; ./check <prop> %s; git -C /repo checkout -- ." % tier) if in_repo else
                   ("patch applied to a scratch worktree of /repo; VERIF_REPO=<worktree> VERIF_OUT=<scratch> ./check <prop> %s; worktree removed" % tier)]
    meta["detected_by"] = sorted(set(old.get("detected_by", [])) | {p for p, r in results.items() if r["exit"] == 1})
    json.dump(meta, open(mp, "w"), indent=1)
    if in_repo:
        print("NOTE: evidence/%s.json now describes a run on the seeded tree; re-run the check on the clean tree before committing" % prop)


if __name__ == "__main__":
    main()
