"""Case construction: option slices, size patterns, input families (python3 stdlib only).

The exhaustive input families come from TLC (spec/api/Inputs.tla -> gen/*.ndjson);
this module crosses them with option slices and adds the seeded random and
parametric families that lie beyond the exhaustive bound.
"""
import itertools
import random

from core import load_gen

# "dfsrand" / "randdfs": the depth-first breaker together with the greedy breaker's node-choice option (either order):
# an option that does not concern the selected algorithm must be ignored
P1S = ["greedy", "dfs", "dfsrand"]
P2S = ["ns", "lp"]
P4_SIZE_AWARE = ["sink", "valign", "pack", "nspos"]
P4_ALL = ["sink", "valign", "pack", "nspos", "bk", "bk0", "bk1", "bk2", "bk3"]
P5_ROUTED = ["poly", "straight", "ortho", "splines"]

# heterogeneous sizes, zero included; index by node number
SIZE_PATTERNS = {
    "het": [(4, 2), (0, 0), (2, 6), (10, 2), (2, 2), (6, 4), (0, 4), (8, 0)],
    "het2": [(2, 2), (12, 4), (0, 0), (2, 8), (6, 2), (4, 4)],
    "wide1": [(40, 2), (2, 2), (2, 2), (4, 4), (2, 2), (0, 0)],
    "odd": [(3, 1), (1, 5), (7, 3), (5, 5), (1, 1), (9, 3)],
    "unit": [(2, 2)],
    "huge": [(8192, 64), (1024, 64), (4096, 128), (8192, 32), (2048, 64), (1024, 1024)],
    "dec": [(1, 1), (127, 200), (1207, 402), (101, 7), (33, 1), (5, 50), (999, 13)],
}


def case(n, edges, **kw):
    c = dict(g=0, rel="", n=n, edges=[list(e) for e in edges], p1="greedy", p2="ns", p3="", p4="sink", p5="poly",
             ns=2, ls=4, fixed=[], smap=[], virt=0, thor=-1, seed=0, mon=0, sc=0, ex=0, after=0, bad=0, dup=0, sden=0)
    c.update(kw)
    return c


def smap_all(n, pat):
    p = SIZE_PATTERNS[pat]
    return [[1, p[i % len(p)][0], p[i % len(p)][1]] for i in range(n)]


def smap_some(n, pat):
    p = SIZE_PATTERNS[pat]
    return [[1 if i % 2 == 0 else 0, p[i % len(p)][0], p[i % len(p)][1]] for i in range(n)]


def smap_none(n):
    return [[0, 0, 0] for _ in range(n)]


def with_sizes(c, mode, pat="het"):
    """mode: none | fixed | all | some | nomap | fixed+some | fixed+all | fixed+zero"""
    n = c["n"]
    c = dict(c)
    if mode == "none":
        pass
    elif mode == "fixed":
        c["fixed"] = [6, 4]
    elif mode == "all":
        c["smap"] = smap_all(n, pat)
    elif mode == "some":
        c["smap"] = smap_some(n, pat)
    elif mode == "nomap":
        c["smap"] = smap_none(n)
    elif mode == "fixed+some":
        c["fixed"] = [6, 4]
        c["smap"] = smap_some(n, pat)
    elif mode == "fixed+all":
        c["fixed"] = [6, 4]
        c["smap"] = smap_all(n, pat)
    elif mode == "fixed+zero":
        # a fixed size for everybody, and a map that LISTS every third node with an explicit size of 0 x 0 (and the node after
        # it with a size that is zero in one dimension only): "listed with size zero" is not "not listed"
        c["fixed"] = [6, 4]
        p = SIZE_PATTERNS[pat]
        c["smap"] = [[1, 0, 0] if i % 3 == 0 else ([1, 0, p[i % len(p)][1] + 1] if i % 3 == 1 else [0, 0, 0]) for i in range(n)]
    else:
        raise ValueError(mode)
    return c


# ---------------------------------------------------------------- canonical form
def canon(edges):
    """relabel nodes in first-appearance order; returns (n, edges)"""
    m = {}
    out = []
    for u, v in edges:
        for x in (u, v):
            if x not in m:
                m[x] = len(m) + 1
        out.append([m[u], m[v]])
    return len(m), out


# ---------------------------------------------------------------- exhaustive families (from TLC)
def family(name, pred=None):
    for rec in load_gen(name):
        if pred is None or pred(rec):
            yield rec["n"], rec["e"], rec


# ---------------------------------------------------------------- random families
def random_multigraph(rng, nmin, nmax, density=1.4, loop_rate=0.05, par_rate=0.1, anti_rate=0.1, acyclic=False,
                      connected=False, simple=False):
    n = rng.randint(nmin, nmax)
    m = max(1, int(n * density * rng.uniform(0.6, 1.4)))
    edges = []
    perm = list(range(n))
    rng.shuffle(perm)
    rank = {v: i for i, v in enumerate(perm)}
    if connected:
        for i in range(1, n):
            j = rng.randrange(i)
            a, b = perm[i], perm[j]
            edges.append((a, b) if rng.random() < 0.5 else (b, a))
    seen = set(edges)
    while len(edges) < m:
        r = rng.random()
        if edges and not simple and r < par_rate:
            e = rng.choice(edges)
        elif edges and not simple and r < par_rate + anti_rate:
            a, b = rng.choice(edges)
            e = (b, a)
        elif not simple and r < par_rate + anti_rate + loop_rate:
            a = rng.randrange(n)
            e = (a, a)
        else:
            a, b = rng.randrange(n), rng.randrange(n)
            if a == b:
                continue
            e = (a, b)
        if simple and (e in seen or (e[1], e[0]) in seen):
            if len(seen) >= n * (n - 1) // 2:
                break
            continue
        seen.add(e)
        edges.append(e)
    if acyclic:
        edges = [(a, b) if rank[a] < rank[b] else (b, a) for a, b in edges if a != b]
    rng.shuffle(edges)
    return canon(edges)


def random_tree(rng, n, direction):
    edges = []
    for i in range(1, n):
        p = rng.randrange(i)
        edges.append((p, i) if direction == "out" else (i, p))
    rng.shuffle(edges)
    return canon(edges)


def broom(rng, branches, direction, shuffle=True):
    """a root with one branch per (path length a, leaves b): a path of a nodes ending in a star of b leaves;
    spiders (b = 0) and brooms are the classic shapes on which tree drawings get unbalanced"""
    edges = []
    nid = 1
    for a, b in branches:
        prev = 0
        for _ in range(a):
            edges.append((prev, nid))
            prev = nid
            nid += 1
        for _ in range(b):
            edges.append((prev, nid))
            nid += 1
    if direction == "in":
        edges = [(v, u) for u, v in edges]
    if shuffle:
        rng.shuffle(edges)
    return canon(edges)


def caterpillar(n, direction):
    spine = max(2, n // 3)
    edges = [(i, i + 1) for i in range(spine - 1)]
    k = spine
    i = 0
    while k < n:
        edges.append((i % spine, k))
        k += 1
        i += 1
    if direction == "in":
        edges = [(b, a) for a, b in edges]
    return canon(edges)


def binary_tree(depth, direction):
    edges = []
    n = 2 ** depth - 1
    for i in range(1, n):
        p = (i - 1) // 2
        edges.append((p, i) if direction == "out" else (i, p))
    return canon(edges)


def chain(n):
    return canon([(i, i + 1) for i in range(n - 1)])


def rail_caterpillar(levels, feet=True):
    """a spine b_0 -> b_1 -> ... with a source t_i -> b_i at every level (two or three nodes per layer, `levels` + 1 layers):
    a chain of as many blocks as there are levels, whose neighbour relations hop from layer to layer"""
    b = lambda i: 2 * i
    t = lambda i: 2 * i + 1
    es = []
    for i in range(levels):
        es.append((t(i), b(i)))
        if i > 0:
            es.append((b(i - 1), b(i)))
    if feet:
        g = 2 * levels
        es += [(b(0), g), (t(0), g)]
    return canon(es)


def deep_narrow(rng, layers, width, extra=0.35):
    """`layers` layers of `width` nodes; every node has an edge to the layer below and one from the layer above, plus a few
    more; edge list shuffled.  Crossings whose removal climbs one layer per sweep: iterative improvement needs many passes."""
    node = lambda l, k: l * width + k
    es = set()
    for l in range(layers - 1):
        for k in range(width):
            es.add((node(l, k), node(l + 1, rng.randrange(width))))
            es.add((node(l, rng.randrange(width)), node(l + 1, k)))
            if rng.random() < extra:
                es.add((node(l, k), node(l + 1, rng.randrange(width))))
    es = sorted(es)
    rng.shuffle(es)
    return canon(es)


def chord_chain(L, chords):
    """a chain of L nodes plus chords (u, v): an edge spanning |v - u| layers (a back edge if v < u) - routes with many bends"""
    return canon([(i, i + 1) for i in range(L - 1)] + list(chords))


def ladder(layers, width=2, twist=True):
    """layers x width grid DAG with twisted rungs: forces crossings and many layers"""
    def node(l, k):
        return l * width + k
    edges = []
    for l in range(layers - 1):
        for k in range(width):
            edges.append((node(l, k), node(l + 1, k)))
            if twist and (l % 3 == 0):
                edges.append((node(l, k), node(l + 1, (k + 1) % width)))
    return canon(edges)


def staircase(k, side_first=True, fan=1):
    """a pipeline s0 -> s1 -> ... -> sk in which every stage s(i+1) has `fan` extra sources r(i,j); with the side edges
    listed before the spine edge the blocks of the default positioner form a diagonal staircase that needs one more
    placement round per stage"""
    edges = []
    nid = k + 1
    for i in range(k):
        side = []
        for j in range(fan):
            side.append((nid, i + 1))
            nid += 1
        spine = [(i, i + 1)]
        edges += (side + spine) if side_first else (spine + side)
    return canon(edges)


def parallel_paths(rng, lengths, pendants=0, shuffle=True, start_first=None):
    """two-terminal series-parallel skeleton: paths with the given numbers of INNER nodes from s to t (0 = the edge s -> t), plus
    pendant leaves hung on random nodes.  The layerer has to stretch the short paths: their inner nodes have equal in- and
    out-degree, so they are exactly the nodes that the balancing step of the network simplex moves around"""
    edges, nid = [], 2          # 0 = s, 1 = t
    for ln in lengths:
        prev = 0
        for _ in range(ln):
            edges.append((prev, nid))
            prev = nid
            nid += 1
        edges.append((prev, 1))
    for _ in range(pendants):
        a = rng.randrange(nid)
        edges.append((a, nid) if rng.random() < 0.5 else (nid, a))
        nid += 1
    if shuffle:
        rng.shuffle(edges)
    if start_first is not None:
        # list an edge of the chosen path first: the first node of the edge list roots the spanning tree
        edges.sort(key=lambda e: 0 if e[0] == start_first or e[1] == start_first else 1)
    return canon(edges)


def stretched(rng):
    """a short path s -> .. -> t whose last node reaches x through 2-3 parallel edges, beside a long path s -> .. -> x, plus pendant
    leaves: the simplex pulls t down with x, an edge between two balanced nodes of the short path is stretched over several
    layers, and the balancing step may move BOTH its end nodes"""
    e, nid = [], 2
    prev = 0
    for _k in range(rng.randint(2, 4)):
        e.append((prev, nid))
        prev = nid
        nid += 1
    for _m in range(rng.randint(2, 3)):
        e.append((prev, 1))
    prev = 0
    for _k in range(rng.randint(4, 8)):
        e.append((prev, nid))
        prev = nid
        nid += 1
    e.append((prev, 1))
    for _p in range(rng.randint(0, 3)):
        a = rng.randrange(2, nid)
        e.append((a, nid))
        nid += 1
    rng.shuffle(e)
    return canon(e)


def bipartite(a, b):
    return canon([(i, a + j) for i in range(a) for j in range(b)])


def grid(w, h):
    def node(x, y):
        return y * w + x
    edges = []
    for y in range(h):
        for x in range(w):
            if x + 1 < w:
                edges.append((node(x, y), node(x + 1, y)))
            if y + 1 < h:
                edges.append((node(x, y), node(x, y + 1)))
    return canon(edges)


# ---------------------------------------------------------------- dedup
class Dedup:
    def __init__(self):
        self.seen = set()

    def key(self, c):
        return (tuple(map(tuple, c["edges"])), c["p1"], c["p2"], c["p3"], c["p4"], c["p5"], c["ns"], c["ls"],
                tuple(c["fixed"]), tuple(map(tuple, c["smap"])), c["virt"], c["thor"], c["mon"], c["sc"],
                tuple(c.get("names") or ()), c["rel"], c["g"], c["bad"])

    def fresh(self, c):
        k = self.key(c)
        if k in self.seen:
            return False
        self.seen.add(k)
        return True
