"""C18 (a monitor only observes, and only its own call) and C15 (concurrent calls do not interfere):
the monitor life-cycle specification spec/conc/Monitor.tla, model-checked by TLC, bound to the code by
 (a) spec -> code: TLC generates every call history up to the bound, the driver replays it on the real
     Layout, and MonitorTrace.tla validates the recorded observations (C18);
 (b) code -> spec: layouts with and without monitor / sequential and concurrent must be equal (ApiTrace);
 (c) the shared-state table of the concurrent configuration is extracted from the code (C15).
"""
import json
import os
import random
import re
import subprocess
import time

import core
import engine
import cases as K
import rel_props
from core import HarnessError, log

SEQ_CFG = """SPECIFICATION Spec
CONSTANTS Procs = {1} MaxCalls = %d Kinds = {"ok","panicEmpty","panicBadEdge"} MonChoice = {TRUE, FALSE} Phases = 2 ExtraShared = {} Generate = %s
INVARIANTS Scoped CleanWhenIdle Complete Gen
CHECK_DEADLOCK FALSE
"""

TRACE_CFG = """SPECIFICATION TraceSpec
CONSTANTS Procs = {1} MaxCalls = 99 Kinds = {"ok","panicEmpty","panicBadEdge"} MonChoice = {TRUE, FALSE} Phases = 2 ExtraShared = {} Generate = FALSE
INVARIANT TraceScoped
POSTCONDITION TraceAccepted
CHECK_DEADLOCK FALSE
"""


def validate_monitor_trace(work, d, trace_path):
    cfg = os.path.join(d, "MonitorTrace.cfg")
    with open(cfg, "w") as fh:
        fh.write(TRACE_CFG)
    cmd = core.java_cmd(work, d) + ["-workers", "1", "-metadir", os.path.join(d, "meta"), "-noGenerateSpecTE",
                                    "-config", cfg, os.path.join(work.specdir, "MonitorTrace.tla")]
    p = subprocess.run(cmd, cwd=d, env=dict(os.environ, VERIF_TRACE=trace_path), capture_output=True, text=True, timeout=1800)
    out = p.stdout
    viols, stats = [], None
    for line in out.splitlines():
        if line.startswith('"VIOL '):
            viols.append(json.loads(json.loads(line)[5:]))
        elif line.startswith('"STATS '):
            stats = json.loads(json.loads(line)[6:])
    m = core.TLC_STATES_RE.search(out)
    if p.returncode != 0 or "No error has been found" not in out or m is None or stats is None:
        raise HarnessError("TLC failed on %s:\n%s" % (trace_path, core._tlc_tail(out + p.stderr)))
    return viols, stats, (int(m.group(1)), int(m.group(2)))


def apalache_inductive(work):
    """Init => IndInv (length 0) and IndInv /\ Next => IndInv' (length 1) for spec/conc/MonitorInd.tla"""
    d = work.sub("apalache")
    t0 = time.time()
    for init, length in (("Init", "0"), ("IndInit", "1")):
        p = subprocess.run(["apalache-mc", "check", "--init=" + init, "--inv=IndInv", "--length=" + length,
                            "--out-dir=" + os.path.join(d, "out"), os.path.join(work.specdir, "MonitorInd.tla")],
                           cwd=d, capture_output=True, text=True, timeout=600, env=dict(os.environ, TMPDIR=d))
        if "EXITCODE: OK" not in p.stdout:
            raise HarnessError("Apalache: the monitor invariant is not inductive (init=%s) - the model was changed:\n%s" % (init, p.stdout[-1500:]))
    return dict(name="MonitorInd.tla: CleanWhenIdle /\\ Scoped is an inductive invariant (Apalache, histories of any length): Init => IndInv, IndInv /\\ Next => IndInv'",
                generated=2, distinct=2, wall=time.time() - t0, ok=True)


def c18_check(prop, tier, seed, replay):
    t0 = time.time()
    work = core.Work(prop)
    try:
        driver = core.build_driver(work)
        known = core.load_known()
        rng = random.Random(seed * 7919 + 18)
        maxcalls = 3 if tier == "quick" else 4
        models = []
        # 1. the design at small scope: all histories, invariants Scoped / CleanWhenIdle / Complete
        r = core.run_tlc(work, "Monitor", "Monitor.tla", SEQ_CFG % (maxcalls + 1, "FALSE"), workers=8, tag="seq")
        if not r["ok"]:
            raise HarnessError("Monitor.tla (sequential) does not hold its invariants - the model is wrong or was changed:\n" + r["out"][-3000:])
        models.append(dict(name="Monitor.tla sequential, MaxCalls=%d" % (maxcalls + 1), **{k: r[k] for k in ("generated", "distinct", "wall", "ok")}))
        # 1b. histories of ANY length: CleanWhenIdle and Scoped as an inductive invariant (Apalache)
        models.append(apalache_inductive(work))
        # 1c. the positioner whose result must not depend on the monitor (its verification step logs through it)
        if not replay:
            models.append(engine.bk_model(work, tier))
        # 2. spec -> code: every complete history of the bound, with the delivery the model predicts
        if replay:
            with open(replay) as fh:
                rp = json.load(fh)
            if rp.get("kind") == "layout":
                return rel_props.run_relational(prop, tier, seed, replay, families={"C18": rel_props.c18t_cases})
            scripts = [rp["script"]]
        else:
            g = core.run_tlc(work, "Monitor", "Monitor.tla", SEQ_CFG % (maxcalls, "TRUE"), workers=1, tag="gen")
            if not g["ok"]:
                raise HarnessError("Monitor.tla generator failed:\n" + g["out"][-3000:])
            scripts = [json.loads(json.loads(l)[4:]) for l in g["out"].splitlines() if l.startswith('"GEN ')]
            models.append(dict(name="Monitor.tla generator, MaxCalls=%d" % maxcalls, **{k: g[k] for k in ("generated", "distinct", "wall", "ok")}))
        pool = [e for n, e, r_ in K.family("E33")] + [e for n, e, r_ in K.family("E44") if len(e) == 4][:300]
        cases = []
        # every history four times: with the default options, with the network-simplex positioner in every call (it runs the
        # phase-2 processor INSIDE phase 4), with Brandes-Koepf + the spline router (the two phases that talk to the monitor most),
        # and with a random algorithm choice per call - the life-cycle of the monitor must not depend on the algorithms
        variants = [None, dict(P4="nspos", P5="poly"), dict(P4="bk", P5="splines", Sized=True), "random"]
        if replay:
            variants = [None]
        for i, s in enumerate(scripts):
            for vi, var in enumerate(variants):
                steps = []
                for st in s["script"]:
                    step = {"mon": st["mon"], "kind": st["kind"],
                            "edges": st["edges"] if "edges" in st else (rng.choice(pool) if st["kind"] == "ok" else [])}
                    if replay and "P4" in st:
                        step.update({k: st[k] for k in ("P1", "P2", "P4", "P5", "Sized") if k in st})
                    if var == "random":
                        step.update(P1=rng.choice(["greedy", "dfs"]), P2=rng.choice(["ns", "lp"]),
                                    P4=rng.choice(["sink", "nspos", "nspos", "bk", "valign", "pack"]),
                                    P5=rng.choice(["poly", "ortho", "straight", "splines", "noop"]), Sized=True)
                    elif var:
                        step.update(var)
                    steps.append(step)
                cases.append({"case": len(cases) + 1, "script": steps, "delivered": s.get("delivered", [])})
        nsh = min(8, max(1, len(cases) // 50))
        dirs = []
        for k in range(nsh):
            d = work.sub("script-%02d" % k)
            with open(os.path.join(d, "cases.ndjson"), "w") as fh:
                for c in cases[k::nsh]:
                    fh.write(json.dumps(c, separators=(",", ":")) + "\n")
            dirs.append(d)

        def run(d):
            core.run_cases(driver, "script", os.path.join(d, "cases.ndjson"), os.path.join(d, "trace.ndjson"), budget_ms=20000)
            return validate_monitor_trace(work, d, os.path.join(d, "trace.ndjson"))
        outs = core.pmap(run, dirs)
        tstates = ttrans = steps = withmon = 0
        viol_scripts = {}
        gdrift = [0]
        for viols, stats, (gen, dist) in outs:
            tstates += dist
            ttrans += gen
            steps += stats["steps"]
            withmon += stats["withmon"]
            for v in viols:
                if all(cl[1].startswith("L3_") for cl in v[1]):
                    # the package globals differ from the model's (or moved): a diagnostic, the verdict is about who received what
                    gdrift[0] += 1
                    continue
                viol_scripts.setdefault(v[0], []).append(v)
        if gdrift[0]:
            print("[mon] DRIFT (diagnostic, not a verdict): %s" % json.dumps({"L3_MonitorGlobalsAsModelled": gdrift[0]}))
        if sum(o[1]["scripts"] for o in outs) != len(cases):
            raise HarnessError("script traces incomplete")
        log("[C18] %d histories (%d calls, %d with monitor) replayed and validated; %d rejected" % (len(cases), steps, withmon, len(viol_scripts)))
        rc = 0
        os.makedirs(os.path.join(core.OUT, "replays"), exist_ok=True)
        shown = 0
        for cid, vs in sorted(viol_scripts.items()):
            c = cases[cid - 1]
            sig = {"script": [[s["mon"], s["kind"]] for s in c["script"]]}
            f = None
            for kf in known.get("findings", []):
                if kf.get("property") == "C18" and kf.get("kind") == "history" and kf["signature"] == sig:
                    f = kf
            if f:
                print("KNOWN-FINDING: property=C18 %s (%s)" % (f["what"], f["id"]))
                continue
            rc = 1
            shown += 1
            if shown > 10:
                continue
            path = os.path.join(core.OUT, "replays", "C18-%s.json" % core.sig_hash(sig))
            with open(path, "w") as fh:
                json.dump({"property": "C18", "kind": "history", "script": {"script": c["script"]}, "rejected_steps": [v[2] for v in vs]}, fh, indent=1)
            print("VIOLATION property=C18 replay=%s" % path)
            log("   history=%s rejected at call %s" % (json.dumps(sig["script"]), [v[2] for v in vs]))
        if replay:
            return rc
        # 3. code -> spec: supplying a monitor does not change the returned layout (layer-1 invariant)
        cs = list(rel_props.c18t_cases(tier, rng))
        res = engine.run_layout_cases(work, driver, ["C18"], cs)
        if res.violations:
            res = rel_props.recheck(work, driver, "C18", res, ["C18"])
        extra = {
            "histories_generated_by_tlc": len(cases), "history_calls_replayed": steps, "history_calls_with_monitor": withmon,
            "histories_rejected": len(viol_scripts), "exhaustive": True,
            "exhaustive_note": "every call history of at most %d calls x {with, without monitor} x {ok, empty-graph panic, malformed-edge panic}" % maxcalls,
        }
        res.states += tstates
        res.transitions += ttrans
        res.stats["returns"] += len(cases)
        res.stats["nontriv"] += sum(1 for c in cases if any(s["mon"] for s in c["script"]) and len(c["script"]) >= 2)
        res.ncases += len(cases)
        samples = [{"history": [[s["mon"], s["kind"]] for s in c["script"]], "model_delivered": c["delivered"]} for c in cases[-3:]]
        rule = ("histories: " + extra["exhaustive_note"] + ", generated by TLC from Monitor.tla with the delivery the model predicts, replayed on the real "
                "Layout with one recording monitor per call and validated by MonitorTrace.tla (receivers, m/p/a after every call); non-trivial = a history "
                "of >= 2 calls with at least one monitor. " + rel_props.RULES["C18"])
        rc2 = engine.report("C18", res, known, tier, seed, extra, rel_props.ASSUME, t0, rule, samples_extra=samples, level_models=models)
        return max(rc, rc2)
    finally:
        work.cleanup()


# ============================================================================ C15
CONC_CFG = """SPECIFICATION Spec
CONSTANTS Procs = {%s} MaxCalls = %d Kinds = {"ok","panicEmpty"} MonChoice = {%s} Phases = 2 Generate = FALSE
CONSTANT ExtraShared <- ExtraSharedDef
INVARIANTS %s
CHECK_DEADLOCK FALSE
"""

MC_MODULE = """---- MODULE MonitorMC ----
(* generated: the package-level state found in the code by `driver extract` *)
EXTENDS Monitor
ExtraSharedDef == {%s}
====
"""


def extract_tables(work, driver):
    out = os.path.join(work.dir, "tables.json")
    p = subprocess.run([driver, "extract", "-root", core.REPO, "-out", out], capture_output=True, text=True, cwd=core.REPO, env=core.GOENV)
    if p.returncode != 0:
        raise HarnessError("extract failed: " + p.stderr[-2000:])
    with open(out) as fh:
        return json.load(fh)


def c15_check(prop, tier, seed, replay):
    t0 = time.time()
    work = core.Work(prop)
    try:
        driver = core.build_driver(work)
        race_driver = core.build_driver(work, race=True)
        known = core.load_known()
        rng = random.Random(seed * 7919 + 15)
        models = []
        # ---- the interleaving argument over the shared-state table extracted from the code
        tables = extract_tables(work, driver)
        extra = []
        for v in tables["vars"]:
            if v["pkg"] == "internal/monitor" and v["name"] in ("m", "p", "a"):
                continue   # modelled explicitly (m, pa) with their guards
            name = (v["pkg"] + "." if v["pkg"] else "") + v["name"]
            if v["pkg"] == "internal/monitor":
                continue   # its only other accesses are the method calls on m, guarded by m != nil (modelled as Log)
            extra.append((name, "W" if v["writes"] else "R", v))
        mon = {v["name"]: v for v in tables["vars"] if v["pkg"] == "internal/monitor"}
        drift = []
        expect_writers = {"m": {"Set", "Reset"}, "p": {"PrefixFor", "Reset"}, "a": {"PrefixFor", "Reset"}}
        for nm, fs_ in expect_writers.items():
            got = {w["func"] for w in (mon.get(nm, {}).get("writes") or []) if w["kind"] != "methodcall"}
            if got != fs_:
                drift.append("internal/monitor.%s is written by %s, the model assumes %s" % (nm, sorted(got), sorted(fs_)))
        es = ", ".join('[name |-> "%s", access |-> "%s"]' % (n, a) for n, a, _ in extra)
        k = 3 if tier == "quick" else 4
        with open(os.path.join(work.specdir, "MonitorMC.tla"), "w") as fh:
            fh.write(MC_MODULE % es)
        r = core.run_tlc(work, "MonitorMC", "MonitorMC.tla",
                         CONC_CFG % (",".join(str(i) for i in range(1, k + 1)), 1 if tier == "quick" else 2, "FALSE", "NoRace Scoped CleanWhenIdle"),
                         workers=core.NCPU, tag="conc", timeout=1800)
        models.append(dict(name="Monitor.tla concurrent, %d processes, no monitor, extracted shared table" % k,
                           **{kk: r[kk] for kk in ("generated", "distinct", "wall", "ok")}))
        candidates = []
        if not r["ok"]:
            if "NoRace" in r["out"] and "violated" in r["out"]:
                candidates = [n for n, a, _ in extra if a == "W"]
                log("[C15] CANDIDATE (model only, rule 2): the extracted shared-state table admits a race on %s; the verdict comes from the race-detector run below" % candidates)
            else:
                raise HarnessError("Monitor.tla (concurrent) failed:\n" + r["out"][-3000:])
        # non-vacuity: with a monitor supplied the model must exhibit the interference the premise excludes
        r2 = core.run_tlc(work, "MonitorMC", "MonitorMC.tla", CONC_CFG % ("1,2", 1, "TRUE, FALSE", "NoRace"), workers=4, tag="concmon")
        if r2["ok"]:
            raise HarnessError("Monitor.tla concurrent configuration is vacuous: no race found even with monitors supplied")
        models.append(dict(name="Monitor.tla concurrent with monitors (non-vacuity: NoRace must be violated)", generated=r2["generated"], distinct=r2["distinct"], wall=r2["wall"], ok=True))
        for d in drift:
            log("DRIFT spec=Monitor.tla " + d)

        # ---- dynamic: race detector + sequential equivalence
        from layout_props import grid, rotate, apply, random_inputs
        combos = grid(p1=K.P1S, p2=K.P2S, p4=K.P4_ALL, p5=["poly", "ortho", "straight"], size=["all", "fixed", "none"], pat=["het", "odd"])
        if replay:
            with open(replay) as fh:
                rp = json.load(fh)
            batches = [(rp["cases"], rp["g"], rp["procs"])]
        else:
            inputs = [(n, e) for n, e, r_ in K.family("E44") if len(e) >= 3]
            rng.shuffle(inputs)
            inputs = inputs[:260 if tier == "quick" else 1500] + random_inputs(rng, 140 if tier == "quick" else 1000, 5, 25, density=1.4)
            cs = [apply(n, e, cb) for (n, e), cb in rotate(inputs, combos, 1, rng)]
            # the explicitly non-deterministic greedy option must be race-free too (its results are not compared:
            # AutogApi!C15_Applies excludes it); cyclic inputs, so that the random choice is actually reached
            for k, c in enumerate(cs):
                c["budgetms"] = 0
                if k % 5 == 0:
                    c["p1"] = "greedyrand"
            # the spline router (its geometry kernel allocates per call; partial size maps give zero-size nodes, whose
            # routes end on rectangle corners and take the kernel's early exits).  Degenerate corridors can hang (known
            # findings of C01) and the concurrent driver has no per-call watchdog, so only inputs that return when run
            # alone are used: a sequential pass with the restartable workers filters them first.
            sp_in = random_inputs(rng, 160 if tier == "quick" else 900, 3, 9, density=1.3)
            sp_combos = grid(p1=K.P1S, p2=K.P2S, p4=["sink", "valign", "pack", "bk"], p5=["splines"],
                             size=["fixed", "all", "some", "fixed+some", "some"], pat=["odd", "het"], ns=[2, 10], ls=[4, 10])
            sp = [apply(n, e, cb) for (n, e), cb in rotate(sp_in, sp_combos, 1, rng)]
            pre = engine.run_layout_cases(work, driver, ["C01"], sp, tag="spfilter", budget_ms=1500)
            badids = {v["case"] for v in pre.violations}
            sp_ok = [{k: x for k, x in c.items() if k != "case"} for cid, c in pre.cases.items() if cid not in badids]
            log("[C15] spline cases: %d of %d return when run alone and join the concurrent batches" % (len(sp_ok), len(sp)))
            # spread them over the batches
            step = max(1, len(cs) // max(1, len(sp_ok)))
            mixed = []
            spi = 0
            for k, c in enumerate(cs):
                mixed.append(c)
                if k % step == 0 and spi < len(sp_ok):
                    mixed.append(sp_ok[spi])
                    spi += 1
            cs = mixed
            for c in cs:
                c["budgetms"] = 0
            plan = [(2, 1), (8, 4), (64, 16)] if tier == "quick" else [(2, 1), (2, 16), (8, 1), (8, 4), (16, 16), (64, 4), (64, 16)]
            per = len(cs) // len(plan)
            batches = []
            for bi, (g, procs) in enumerate(plan):
                part = cs[bi * per:(bi + 1) * per]
                if g >= 64:
                    part = part[:max(20, len(part) // 4)]
                batches.append((part, g, procs))
            # large next to small: behaviour that switches on above a size threshold (a coarser mode for "large diagrams", a
            # cache, a pool, a parallel path) is process-wide state as soon as it is kept in a package-level variable - and no
            # input of a few dozen edges ever writes it.  Two calls with > 400 edges (13 x 18 grid: 234 nodes, 437 edges,
            # ~1 s alone) run next to small spline / polyline calls with long, bent edges; race detector on.
            bn, be = K.grid(13, 18)
            bigs = [K.case(bn, be, p4="sink", p5="splines", fixed=[6, 4], ns=2, ls=4, budgetms=0),
                    K.case(bn, be, p4="valign", p5="ortho" if tier == "quick" else "splines", fixed=[6, 4], ns=10, ls=10, budgetms=0)]
            if tier != "quick":
                bigs.append(K.case(bn, be, p4="pack", p5="poly", fixed=[6, 4], ns=2, ls=4, budgetms=0))
            bent = [c for c in sp_ok if len(c["edges"]) >= 6][:24 if tier == "quick" else 80]
            batches.append((bigs + bent + [dict(c, p5="poly") for c in bent[:8]], 6 if tier == "quick" else 12, 8))
            # heavy calls under load: the network-simplex positioner on ~20 nodes / ~36 edges takes 0.1-0.5 s alone; 32-64 of them
            # on 2 processors take many seconds each.  What a call returns must not depend on how long it was kept waiting
            # (a wall-clock cut-off, a time-based seed, a busy-wait) - the slowest candidates of a sequential pass are used.
            hv = []
            for _ in range(24 if tier == "quick" else 60):
                n, e = K.random_multigraph(rng, 18, 22, density=1.4, connected=True, loop_rate=0)
                hv.append(K.case(n, e, p1="dfs", p2="ns", p4="nspos", p5="poly", fixed=[6, 4], ns=2, budgetms=120000))
            dh = work.sub("heavy-pre")
            cph, tph = os.path.join(dh, "cases.ndjson"), os.path.join(dh, "trace.ndjson")
            with open(cph, "w") as fh:
                for i, c in enumerate(hv):
                    fh.write(json.dumps(dict(c, case=i + 1), separators=(",", ":")) + "\n")
            core.run_cases(driver, "run", cph, tph, budget_ms=120000, mem_mb=2000)
            times = {}
            with open(tph) as fh:
                for line in fh:
                    if line.startswith('{"ev":"Return"'):
                        mm = re.search(r'"case":(\d+).*"us":(\d+)', line)
                        if mm:
                            times[int(mm.group(1))] = int(mm.group(2))
            # about 0.3 s alone (thorough: up to 1.5 s): heavy enough to be slowed down by seconds, cheap enough for a quick check
            target = 300000 if tier == "quick" else 700000
            ok_ = [k for k in times if 80000 <= times[k] <= (900000 if tier == "quick" else 3000000)]
            slow = sorted(ok_, key=lambda k: abs(times[k] - target))[:(3 if tier == "quick" else 8)]
            heavy = [dict(hv[k - 1], budgetms=0) for k in slow]
            log("[C15] heavy batch: %d calls of %s ms each when run alone" % (len(heavy), [times[k] // 1000 for k in slow]))
            if heavy:
                batches.append((heavy, 32 if tier == "quick" else 64, 2))
        res_all = None
        races = []
        gid = 0
        for bi, (part, g, procs) in enumerate(batches):
            for c in part:
                gid += 1
                c["g"] = gid
                c["case"] = gid
                c["rel"] = "ref"
            d = work.sub("conc-%d" % bi)
            cpath, tpath = os.path.join(d, "cases.ndjson"), os.path.join(d, "trace.ndjson")
            with open(cpath, "w") as fh:
                for c in part:
                    fh.write(json.dumps(c, separators=(",", ":")) + "\n")
            env = dict(os.environ, GOMAXPROCS=str(procs), GORACE="halt_on_error=1 exitcode=66", GOTRACEBACK="all")
            is_heavy = (not replay) and part and part[0].get("p4") == "nspos" and len(part) <= 8 and part[0]["n"] >= 18
            p = subprocess.run([driver if is_heavy else race_driver, "conc", "-cases", cpath, "-out", tpath, "-g", str(g), "-seed", str(seed), "-budgetms", "0",
                                "-memmb", "6000"], capture_output=True, text=True, env=env, timeout=3600)
            if p.returncode == 66 or "DATA RACE" in p.stderr:
                races.append(dict(batch=bi, g=g, procs=procs, report=p.stderr[:6000], cases=part))
                continue
            if "concurrent map" in p.stderr:
                races.append(dict(batch=bi, g=g, procs=procs, report=p.stderr[:6000], cases=part))
                continue
            if p.returncode != 0:
                raise HarnessError("conc driver failed (exit %d): %s" % (p.returncode, p.stderr[-3000:]))
            viols, stats, (gen, dist) = core.validate_trace(work, d, tpath, ["C15"])
            r_ = engine.Result()
            r_.stats = stats
            r_.states, r_.transitions = dist, gen
            r_.cases = {c["case"]: c for c in part}
            r_.ncases = stats["calls"]
            for v in viols:
                r_.violations.append(dict(case=v[0] % engine.PROC_OFFSET, clauses=v[1], where=None, msg=None))
            log("[C15] batch %d: %d cases x %d goroutines, GOMAXPROCS=%d: %d concurrent results compared, %d differ" %
                (bi, len(part), g, procs, stats["judged"], stats["viol"]))
            res_all = r_ if res_all is None else _merge_same_ids(res_all, r_)
        rc = 0
        os.makedirs(os.path.join(core.OUT, "replays"), exist_ok=True)
        for rc_ in races:
            rc = 1
            sig = core.sig_hash(rc_["report"][:400])
            path = os.path.join(core.OUT, "replays", "C15-race-%s.json" % sig)
            with open(path, "w") as fh:
                json.dump({"property": "C15", "clause": "NoRace", "g": rc_["g"], "procs": rc_["procs"], "report": rc_["report"],
                           "cases": rc_["cases"]}, fh, indent=1)
            print("VIOLATION property=C15 replay=%s" % path)
            log("   race detector report (g=%d GOMAXPROCS=%d):\n%s" % (rc_["g"], rc_["procs"], rc_["report"][:1500]))
        if res_all is None:
            res_all = engine.Result()
        extra_cov = {
            "shared_state_table": [{"name": n, "access": a, "writes": v["writes"], "reads": v["reads"]} for n, a, v in extra] +
                                  [{"name": "internal/monitor." + nm, "access": "guarded by m != nil", "writes": mon[nm]["writes"]} for nm in sorted(mon)],
            "model_candidates": candidates, "race_reports": len(races), "drift": drift,
            "schedules": [{"goroutines": g, "GOMAXPROCS": pr, "cases": len(part)} for part, g, pr in batches],
        }
        rule = ("static: every package-level variable of the non-test sources and every write to it, extracted with go/types, becomes the Shared table of "
                "Monitor.tla's concurrent configuration, where TLC explores all interleavings of k processes (NoRace, Scoped, CleanWhenIdle); dynamic: the "
                "driver built with -race runs each case alone and then under 2/8/64 goroutines with GOMAXPROCS 1/4/16, every goroutine in its own order; "
                "each concurrent result must be bit-exactly equal to the sequential one (TLC, AutogApi C15) and any race-detector report is a violation; "
                "non-trivial = a concurrent result of a case with >= 3 nodes")
        rc2 = engine.report("C15", res_all, known, tier, seed, extra_cov, rel_props.ASSUME + ["the Go race detector observes the schedules that actually ran, not all schedules"], t0, rule, level_models=models)
        return max(rc, rc2)
    finally:
        work.cleanup()


def _merge_same_ids(a, b):
    a.cases.update(b.cases)
    a.violations.extend(b.violations)
    for k in a.stats:
        a.stats[k] += b.stats[k]
    a.states += b.states
    a.transitions += b.transitions
    a.ncases += b.ncases
    return a
