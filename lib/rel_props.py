"""Relational properties (C07 determinism, C08 renaming, C09 component independence, C17 scaling,
C18 monitor transparency): invariants over the completed calls of a group, evaluated by TLC
in AutogApi.tla on traces of the real Layout (trace validation, code -> spec).

A group is a run of consecutive cases with the same g: first the reference (rel "ref"), then
its repetitions (rel "same"), then the variants (rel "rename" / "scale" / "mon" / "union").
Rule 8b of DESIGN.md: a relational mismatch is only blamed on the relational property when the
reference is stable; groups with a mismatch are re-run with 20 repetitions of the reference.
"""
import itertools
import json
import os
import random
import re
import time

import core
import engine
import cases as K
from cases import case, with_sizes
from layout_props import grid, rotate, apply, random_inputs, fam_E, ASSUME

HELPER_NAMES = ["V1", "V2", "V3", "NE0", "NE1", "NE2", "NE3", "NE4", "", "N1", "V4", "NE5"]
LONG = "x" * 300
UNI = ["ノード", "éè", "\U0001F600", "a b", "\"q\"", "tab\t", "\u0000z", "V1"]


def group(gid, ref, variants, reps=2):
    """ref + reps repetitions + variants, all tagged with the group id"""
    out = []
    r = dict(ref, g=gid, rel="ref", ex=1)
    out.append(r)
    for _ in range(reps):
        out.append(dict(r, rel="same", reps=0))
    for v in variants:
        out.append(dict(v, g=gid, ex=1))
    return out


# ---------------------------------------------------------------------------- C07
def c07_cases(tier, rng):
    # half of the cases with the greedy breaker: it has the most order-sensitive bookkeeping (sources / sinks / reversal lists)
    combos = grid(p1=["greedy", "dfs", "greedy", "dfsrand"], p2=K.P2S, p4=K.P4_ALL, p5=["poly", "ortho", "straight", "splines"],
                  size=["all", "fixed+some"], pat=["het", "odd"], virt=[0, 1])
    # inputs on which order-sensitive iteration can matter: several components, self-loops, parallel/antiparallel pairs
    inputs = [(n, e) for n, e, r in K.family(fam_E(tier)) if r["conn"] == 0 or r["loops"] >= 1 or r["simple"] == 0 or len(e) >= 4]
    rng.shuffle(inputs)
    inputs = inputs[:1200 if tier == "quick" else 12000]
    dense = random_inputs(rng, 1500 if tier == "quick" else 15000, 4, 6, density=1.7, loop_rate=0.03, par_rate=0.05, anti_rate=0.15)
    rnd = random_inputs(rng, 500 if tier == "quick" else 6000, 4, 14, density=1.3, loop_rate=0.15) + \
        random_inputs(rng, 700 if tier == "quick" else 8000, 6, 14, density=1.3, connected=True, simple=True, loop_rate=0) + \
        dense + \
        random_inputs(rng, 800 if tier == "quick" else 8000, 5, 8, density=1.5, connected=True, simple=True, loop_rate=0)
    # flowers: several cycles through one node (petals of 2-4 nodes, optionally sharing a stem), edge list shuffled: the breaker has
    # to reverse several edges that end in the same node, which is where the order of reversals shows in the adjacency lists
    flowers = []
    for _ in range(400 if tier == "quick" else 4000):
        es, nid = [], 1
        stem = 0
        if rng.random() < 0.4:
            es.append((0, nid))
            stem = nid
            nid += 1
        for _p in range(rng.randint(2, 4)):
            prev = stem
            for _k in range(rng.randint(1, 3)):
                es.append((prev, nid))
                prev = nid
                nid += 1
            es.append((prev, 0))
        if rng.random() < 0.3:
            es.append((rng.randrange(nid), rng.randrange(nid)))
        rng.shuffle(es)
        flowers.append(K.canon(es))
    dense = dense + flowers
    rnd = rnd + flowers
    dense_keys = {tuple(map(tuple, e)) for _, e in dense}
    gid = 0
    nspl = 0
    for (n, e), cb in rotate(inputs + rnd, combos, 1, rng):
        gid += 1
        c = apply(n, e, cb)
        c["after"] = 1
        if tuple(map(tuple, e)) in dense_keys:
            c["p1"] = "greedy"     # many short cycles: several reversed edges per node, the greedy breaker's bookkeeping decides
        # the spline router aborts on many inputs (known finding F-SPLINES, judged by C01): keep a small share of it here
        if c["p5"] == "splines":
            nspl += 1
            if nspl > (60 if tier == "quick" else 400):
                c["p5"] = "poly"
        # besides the logged repetitions, the driver repeats the reference 40 (thorough: 120) more times in-process and
        # logs those runs whose result differs (every logged run is judged by the specification)
        c["reps"] = (40 if tier == "quick" else 120) if c["p5"] != "splines" else 0   # the spline router can abort the worker
        if c["reps"] and n <= 7:
            c["reps"] *= 6          # small inputs cost microseconds: a minority outcome of 1 run in 10 must not slip through
        yield from group(gid, c, [], reps=2 if tier == "quick" else 5)
    # the same option given twice in one call (a decoy value first: another size map, other spacings, another fixed size): an
    # option list is an assignment list, the later one counts - and BOTH size maps are the caller's data, re-read after the call
    combos_d = grid(p1=K.P1S, p2=K.P2S, p4=K.P4_ALL, p5=["poly", "ortho", "straight"], size=["all", "some", "fixed+some", "fixed+all"], pat=["het", "odd"],
                    virt=[0, 1], oo=[0])
    small = [(n, e) for n, e, r in K.family("E33")] + random_inputs(rng, 300 if tier == "quick" else 3000, 3, 9, density=1.4)
    for (n, e), cb in rotate(small, combos_d, 1, rng):
        gid += 1
        c = apply(n, e, cb)
        c["after"] = 1
        c["dup"] = 1
        c["reps"] = 6
        # (dup runs are compared with each other only: that the later option wins is how the code behaves, not something a
        # listed property promises)
        yield from group(gid, c, [], reps=2)


# ---------------------------------------------------------------------------- C08
def renamings(n, rng, count):
    out = []
    fixed = [HELPER_NAMES[:n], list(reversed(HELPER_NAMES[:n])), ["NE%d" % i for i in range(n)],
             ["V%d" % (i + 1) for i in range(n)], ["V%d" % (n - i) for i in range(n)],
             ([LONG] + UNI)[:n] if n <= len(UNI) + 1 else None]
    for f in fixed:
        if f is not None and len(f) == n and len(set(f)) == n:
            out.append(f)
    pool = list(dict.fromkeys(HELPER_NAMES + ["V%d" % i for i in range(5, 12)] + ["NE%d" % i for i in range(6, 30)] + UNI + [LONG]))
    while len(out) < count:
        if n <= len(pool):
            out.append(rng.sample(pool, n))
        else:
            out.append(rng.sample(pool, len(pool)) + ["z%d" % i for i in range(n - len(pool))])
    rng.shuffle(out)
    out = out[:count]
    for nm in out:
        if len(nm) != n or len(set(nm)) != n:
            raise core.HarnessError("renaming is not injective: %r" % (nm,))
    return out


def c08_cases(tier, rng):
    combos = grid(p1=K.P1S, p2=K.P2S, p4=K.P4_ALL, p5=["poly", "ortho", "straight", "noop"], virt=[0, 1], size=["all", "fixed", "some"], pat=["het", "odd"])
    inputs = [(n, e) for n, e, r in K.family(fam_E(tier)) if len(e) >= 3]
    rng.shuffle(inputs)
    inputs = inputs[:900 if tier == "quick" else 9000]
    rnd = random_inputs(rng, 500 if tier == "quick" else 6000, 4, 12, density=1.5)
    gid = 0
    for (n, e), cb in rotate(inputs + rnd, combos, 1, rng):
        gid += 1
        c = apply(n, e, cb)
        vs = [dict(c, rel="rename", names=nm) for nm in renamings(n, rng, 3 if tier == "quick" else 6)]
        if c["virt"] == 1:
            # with helper nodes in the output, a user node called V<k> and a helper node called V<k> are two output nodes with
            # the same ID: the output no longer says which is which, so "the same drawing up to the renaming" cannot be
            # evaluated per node (the driver tells helper nodes from user nodes by their ID).  Those renamings run with the
            # helper nodes left out of the output.
            vs = [dict(v, virt=0) if any(re.fullmatch(r"V\d+", x) for x in v["names"]) else v for v in vs]
            if any(v["virt"] == 0 for v in vs):
                c = dict(c, virt=0)
                vs = [dict(v, virt=0) for v in vs]
        yield from group(gid, c, vs)


# ---------------------------------------------------------------------------- C17
def c17_cases(tier, rng):
    combos = grid(p1=K.P1S, p2=K.P2S, p4=["sink", "valign", "pack", "bk", "bk0", "bk1", "bk2", "bk3"],
                  p5=["poly", "ortho", "straight"], virt=[0, 1], size=["all", "fixed", "some"], pat=["het", "odd", "wide1"], ns=[0, 1, 3], ls=[1, 5])
    inputs = [(n, e) for n, e, r in K.family(fam_E(tier)) if len(e) >= 3]
    rng.shuffle(inputs)
    inputs = inputs[:900 if tier == "quick" else 9000]
    rnd = random_inputs(rng, 500 if tier == "quick" else 6000, 4, 25, density=1.4)
    ks = [-3, -2, -1, 1, 2, 3, 4, 5, 6]
    # "the same power of two" is ANY power of two: far-out scales push every length across whatever absolute constant the code
    # might compare it with (an extent limit of 1e6, an epsilon of 1e-3, an iteration cap derived from a width ...)
    far = [-30, -20, -12, 10, 14, 20, 30]
    gid = 0
    for (n, e), cb in rotate(inputs + rnd, combos, 1, rng):
        gid += 1
        c = apply(n, e, cb)
        sel = (ks + far) if tier == "thorough" else rng.sample(ks, 3) + rng.sample(far, 1)
        yield from group(gid, c, [dict(c, rel="scale", sc=k) for k in sel])
    # large drawings at ordinary scales: node widths in the thousands, spacings to match
    combos_h = grid(p1=K.P1S, p2=K.P2S, p4=["sink", "valign", "pack", "bk"], p5=["poly", "ortho", "straight"], size=["all", "fixed"],
                    pat=["huge"], ns=[2048, 0, 100], ls=[64, 1000])
    big = random_inputs(rng, 250 if tier == "quick" else 3000, 4, 12, density=1.4) + random_inputs(rng, 50 if tier == "quick" else 600, 20, 40, density=1.3)
    for (n, e), cb in rotate(big, combos_h, 1, rng):
        gid += 1
        c = apply(n, e, cb)
        if c.get("fixed"):
            c["fixed"] = [8192, 64]
        sel = ks if tier == "thorough" else [6] + rng.sample(ks[:-1], 2)
        yield from group(gid, c, [dict(c, rel="scale", sc=k) for k in sel])


# ---------------------------------------------------------------------------- C18 (transparency)
def c18t_cases(tier, rng):
    combos = grid(p1=K.P1S, p2=K.P2S, p4=K.P4_ALL, p5=["poly", "ortho", "straight"], size=["all", "fixed"])
    inputs = [(n, e) for n, e, r in K.family(fam_E(tier)) if len(e) >= 3]
    rng.shuffle(inputs)
    inputs = inputs[:1200 if tier == "quick" else 12000]
    rnd = random_inputs(rng, 600 if tier == "quick" else 8000, 4, 25, density=1.4)
    gid = 0
    for (n, e), cb in rotate(inputs + rnd, combos, 1, rng):
        gid += 1
        c = apply(n, e, cb)
        yield from group(gid, c, [dict(c, rel="mon", mon=1)])
    # code that consults the monitor can hide behind rarely taken branches (e.g. the fall-back of the balanced
    # Brandes-Koepf layout when the averaged layout violates the spacing): mixed widths, small graphs, every positioner
    combos2 = grid(p1=K.P1S, p2=K.P2S, p4=["bk", "bk", "sink", "nspos", "valign"], p5=["poly", "ortho"], size=["all"],
                   pat=["het", "het2", "odd", "wide1"], ns=[1, 10])
    small = random_inputs(rng, 1500 if tier == "quick" else 15000, 3, 8, density=1.3, loop_rate=0.02)
    for (n, e), cb in rotate(small, combos2, 1, rng):
        gid += 1
        c = apply(n, e, cb)
        yield from group(gid, c, [dict(c, rel="mon", mon=1)])
    # the spline router logs every rectangle, path and control point through the monitor: the phase with the most monitor calls
    combos3 = grid(p1=K.P1S, p2=K.P2S, p4=K.P4_SIZE_AWARE, p5=["splines"], size=["fixed", "all"], pat=["odd"], ns=[2, 10], ls=[4, 10])
    sp = random_inputs(rng, 400 if tier == "quick" else 4000, 3, 9, density=1.3, loop_rate=0.02)
    for (n, e), cb in rotate(sp, combos3, 1, rng):
        gid += 1
        c = apply(n, e, cb)
        yield from group(gid, c, [dict(c, rel="mon", mon=1)])


# ---------------------------------------------------------------------------- C09
def interleavings(a, b, rng, count):
    """order-preserving interleavings of two sequences, as lists of (which, index)"""
    outs = set()
    la, lb = len(a), len(b)
    base = [0] * la + [1] * lb
    cands = [tuple(base), tuple(reversed(base))]
    alt = []
    i = j = 0
    while i < la or j < lb:
        if i < la:
            alt.append(0)
            i += 1
        if j < lb:
            alt.append(1)
            j += 1
    cands.append(tuple(alt))
    for _ in range(count * 3):
        x = base[:]
        rng.shuffle(x)
        cands.append(tuple(x))
    res = []
    for c in cands:
        if c not in outs:
            outs.add(c)
            res.append(c)
        if len(res) >= count:
            break
    return res


def union_of(parts, pattern):
    """parts: list of (n, edges); pattern: tuple of part indices, one per union edge.
    Returns (n, edges, partmaps) where partmaps[k][j-1] = union index of node j of part k."""
    pos = [0] * len(parts)
    raw = []
    for k in pattern:
        u, v = parts[k][1][pos[k]]
        pos[k] += 1
        raw.append(((k, u), (k, v)))
    m = {}
    edges = []
    for a, b in raw:
        for x in (a, b):
            if x not in m:
                m[x] = len(m) + 1
        edges.append([m[a], m[b]])
    partmaps = [[m[(k, j)] for j in range(1, parts[k][0] + 1)] for k in range(len(parts))]
    return len(m), edges, partmaps


HUNGRY = []     # connected inputs on which the network-simplex layerer needs >= 2 pivots (harvested by harvest_pivot_hungry)


def harvest_pivot_hungry(work, driver, tier, rng):
    """spec -> code input selection with the help of hook H3: random connected DAG-like inputs are run once and those on which the
    layerer pivots at least twice are kept (1-3 % of 7-10 node inputs).  With a small thoroughness such a component exhausts its
    pivot budget - a budget that depends on the component's own size and must not depend on its neighbours in the input."""
    cs = []
    for n, e in random_inputs(rng, 2500 if tier == "quick" else 15000, 7, 11, density=1.4, connected=True, loop_rate=0):
        cs.append(K.case(n, e, p1="dfs", p2="ns", p4="valign", p5="straight", fixed=[6, 4], case=len(cs) + 1))
    d = work.sub("hungry")
    cpath, tpath = os.path.join(d, "cases.ndjson"), os.path.join(d, "trace.ndjson")
    with open(cpath, "w") as fh:
        for c in cs:
            fh.write(json.dumps(c, separators=(",", ":")) + "\n")
    core.run_cases(driver, "run", cpath, tpath, budget_ms=3000, mem_mb=400)
    out = []
    with open(tpath) as fh:
        for line in fh:
            if line.startswith('{"ev":"Return"'):
                m = re.search(r'"case":(\d+).*"pivots":(\d+)', line)
                if m and int(m.group(2)) >= 2:
                    c = cs[int(m.group(1)) - 1]
                    out.append((c["n"], c["edges"]))
    core.log("[C09] %d of %d random connected inputs make the layerer pivot at least twice; used as parts with thoroughness 1" % (len(out), len(cs)))
    return out


def c09_cases(tier, rng):
    combos = grid(p1=K.P1S, p2=K.P2S, p4=K.P4_ALL, p5=["poly", "straight", "ortho"], ns=[0, 2, 5], virt=[0, 1], thor=[-1, -1, 1])
    small = [(n, e) for n, e, r in K.family("E33") if r["conn"] == 1]
    med = [(n, e) for n, e, r in K.family("E44") if r["conn"] == 1 and len(e) >= 3]
    npairs = 1200 if tier == "quick" else 12000
    gid = 0
    combos_l = list(combos)
    for t in range(npairs):
        k = 2 if rng.random() < 0.8 else 3
        pool = small if rng.random() < 0.6 else med
        parts = [rng.choice(pool) for _ in range(k)]
        if t % 7 == 0:
            n2, e2 = K.random_multigraph(rng, 4, 9, connected=True)
            parts[0] = (n2, e2)
        cb = combos_l[t % len(combos_l)]
        if HUNGRY and t % 5 == 1:
            # a tiny component (a self-looped node, or one edge) listed before / after a component that exhausts a small pivot budget
            tiny = rng.choice([(1, [[1, 1]]), (2, [[1, 2]]), (3, [[1, 2], [2, 3]])])
            hungry = rng.choice(HUNGRY)
            parts = [tiny, hungry] if rng.random() < 0.7 else [hungry, tiny]
            cb = dict(cb, p2="ns", thor=rng.choice([1, 1, 2]))
        pat_seq = []
        for pi, (pn, pe) in enumerate(parts):
            pat_seq += [pi] * len(pe)
        pats = [tuple(pat_seq)]
        x = pat_seq[:]
        rng.shuffle(x)
        pats.append(tuple(x))
        if tier == "thorough":
            y = pat_seq[:]
            rng.shuffle(y)
            pats.append(tuple(y))
        for pat in set(pats):
            gid += 1
            n, edges, pmaps = union_of(parts, pat)
            # sizes are a function of the union's node index, so that each part sees the same sizes solo and in the union;
            # every sixth group with sizes off the binary grid (tenths, thirds: the shift of a component is then rounded, and
            # nothing else may depend on it - judged by PartOKApprox)
            sden = rng.choice([10, 3, 10, 7]) if t % 6 == 2 else 0
            pat_sz = K.SIZE_PATTERNS["dec" if sden else "het"]
            usm = [[1, pat_sz[i % len(pat_sz)][0], pat_sz[i % len(pat_sz)][1]] for i in range(n)]
            out = []
            for pi, (pn, pe) in enumerate(parts):
                pc = apply(pn, pe, cb)
                pc["smap"] = [usm[pmaps[pi][j] - 1] for j in range(pn)]
                pc.update(g=gid, rel="part", part=pmaps[pi], ex=1)
                out.append(pc)
                out.append(dict(pc))
            uc = apply(n, edges, cb)
            uc["smap"] = usm
            uc.update(g=gid, rel="union", ex=1)
            out.append(uc)
            if sden:
                for pc in out:
                    pc["sden"] = sden
                    if pc["p5"] == "poly" and t % 12 == 2:
                        pc["p5"] = "ortho"
            # the parts and the union must run with the very same options (apply() replaces the slow network-simplex
            # positioner on large inputs, which the union can be while its parts are not)
            for pc in out:
                pc["p4"] = uc["p4"]
                pc["budgetms"] = uc["budgetms"]
                if any(pc[k] != uc[k] for k in ("p1", "p2", "p3", "p4", "p5", "ns", "ls", "fixed", "virt", "thor", "sden")):
                    raise core.HarnessError("C09 group with different options")
            yield from out


RULES = {
    "C07": "groups = one case run 3x (quick) / 6x (thorough) in one process and again in a fresh process, plus 40 (thorough: 120) further in-process repetitions per process of which the driver logs those whose result differs from the first (Go randomises map iteration per range statement; every logged run is judged by TLC); dense small multigraphs (4-6 nodes, ~1.7 edges per node) and connected simple graphs of 5-8 nodes are added because order-sensitivity needs several reversed edges on one node or symmetric siblings; inputs from E(4,4)/E(4,5) with >= 2 components, self-loops, parallel/antiparallel pairs or >= 4 edges, random multigraphs with many self-loops and random connected simple graphs up to 14 nodes x full option grid (all positioners incl. forced B&K layouts, all routers); every run must return the same node order, exact coordinates (bit-exact decomposition), routes and flags as the first, and the caller's edge slice and size map are re-read after the call; non-trivial = a repeated run with >= 3 nodes",
    "C08": "groups = reference names N1..Nk run 3x + 3 (quick) / 6 (thorough) injective renamings drawn from the helper-node alphabets (V<k>, NE<k>), the empty string, a 300-character name and Unicode/control characters; E(4,4)/E(4,5) lists with >= 3 edges and random multigraphs up to 12 nodes x all positioners x three routers x size options; drawings compared as bags of exact node rectangles and exact routes modulo the renaming; judged only when the reference is stable (rule 8b)",
    "C17": "groups = reference scale run 3x + scaled runs (sizes, NodeSpacing, LayerSpacing x 2^k, k in -3..6, 3 values quick / all 9 thorough); the driver divides the output by 2^k and TLC requires exact equality (bit-exact mantissa/exponent decomposition) of every coordinate and route point plus equal order and flags; E(4,4)/E(4,5) and random multigraphs up to 25 nodes x SinkColoring, VAlign, PackRight, B&K (balanced and the four forced layouts) x Straight, Polyline, Ortho x size patterns incl. zero and odd sizes x spacings incl. 0; judged only when the reference is stable",
    "C18": "transparency: groups = a case without monitor run 3x + the same case with a recording monitor; exact equality of the returned layout; E(4,4)/E(4,5) and random multigraphs x full positioner grid",
    "C09": "groups = solo runs of 2-3 connected parts (each twice) + the run on their disjoint union, edges interleaved in 2-3 order-preserving ways (concatenated and shuffled); parts from E(3,3) incl. single self-looped nodes, E(4,4) and random connected multigraphs up to 9 nodes; per-node sizes are a function of the union's node so each part sees the same sizes solo and in the union; TLC requires each part of the union to equal its solo layout up to one horizontal translation (nodes and the bag of routed edges) and, for size-aware positioners, component extents at least NodeSpacing apart; judged only when the solo runs are stable",
}

FAMILIES = {"C07": c07_cases, "C08": c08_cases, "C17": c17_cases, "C09": c09_cases}


def run_relational(prop, tier, seed, replay, families=FAMILIES, extra_models=None, props=None):
    t0 = time.time()
    work = core.Work(prop)
    try:
        driver = core.build_driver(work)
        known = core.load_known()
        if replay:
            with open(replay) as fh:
                rp = json.load(fh)
            cs = [dict(c) for c in rp.get("group") or [rp["case"]]]
            for c in cs:
                c["g"] = 1
        else:
            rng = random.Random(seed * 7919 + int(prop[1:]))
            if prop == "C09":
                HUNGRY[:] = harvest_pivot_hungry(work, driver, tier, random.Random(seed * 31 + 9))
            cs = list(families[prop](tier, rng))
        procs = 2 if prop == "C07" else 1
        res = engine.run_layout_cases(work, driver, props or [prop], cs, procs=procs)
        if prop != "C07" and res.violations:
            res = recheck(work, driver, prop, res, props or [prop])
        models = list(extra_models or [])
        if not replay:
            # the mechanism models behind the relation, and the same calls once more under the layer-2 / layer-3 trace specification
            if prop == "C17":
                models.append(engine.bk_model(work, tier))
            if prop in ("C07", "C08", "C09", "C17"):
                sample = [dict(c, g=0, rel="") for c in cs if c.get("rel") in ("ref", "part", "union", "rename", "scale")]
                random.Random(seed).shuffle(sample)
                pd = engine.pipeline_diag(work, driver, sample, limit=300 if tier == "quick" else 2000)
                if pd:
                    models.append(pd)
        return engine.report(prop, res, known, tier, seed, {"groups": len({c["g"] for c in cs})}, ASSUME, t0, RULES[prop],
                             level_models=models)
    finally:
        work.cleanup()


def recheck(work, driver, prop, res, props):
    """rule 8b: groups with a relational mismatch are re-run with 20 more repetitions of the reference (and of each
    part); only mismatches that persist with a stable reference are reported.  Two passes:
    (1) the mismatching groups alone, in fresh processes: what persists is reported (its replay file reproduces alone);
    (2) groups whose mismatch did NOT persist alone may depend on what the process did before (state carried from one call
        into the next): the whole case list is run again with every case in the process (shard) and position it had, plus
        the 20 extra repetitions inside those groups; a mismatch that shows again, with all 23 references equal, is
        reported as well (clause suffixed "_after_earlier_calls")."""
    bad_groups = {res.cases[v["case"]]["g"] for v in res.violations}

    def expand(c, extra):
        c2 = {k: x for k, x in c.items() if k != "case"}
        out = [c2]
        if extra:
            if c["rel"] == "ref":
                out.extend(dict(c2, rel="same") for _ in range(20))
            elif c["rel"] == "part":
                out.extend(dict(c2) for _ in range(9))
        return out
    cs = []
    for c in res.cases.values():
        if c["g"] in bad_groups:
            cs.extend(expand(c, True))
    core.log("[%s] rule 8b: re-running %d groups with 20 extra repetitions of the reference" % (prop, len(bad_groups)))
    res2 = engine.run_layout_cases(work, driver, props, cs, tag="recheck")
    persisted = {res2.cases[v["case"]]["g"] for v in res2.violations}
    first = res.violations
    res.violations = []

    def take(r2, suffix):
        for v in r2.violations:
            c2 = r2.cases[v["case"]]
            nid = max(res.cases) + 1
            res.cases[nid] = dict(c2, case=nid)
            cl = [[p, cl_ + suffix] for p, cl_ in v["clauses"]] if suffix else v["clauses"]
            res.violations.append(dict(v, case=nid, clauses=cl))
    take(res2, "")
    res.states += res2.states
    res.transitions += res2.transitions
    cleared = bad_groups - persisted
    if cleared:
        core.log("[%s] rule 8b, second pass: %d groups mismatched in their process but not alone; running the whole list again "
                 "in the same processes and order, with 20 extra repetitions in those groups" % (prop, len(cleared)))
        cs3 = []
        for c in sorted(res.cases.values(), key=lambda c: c["case"]):
            if "_sh" not in c or c["case"] > res.ncases:
                continue
            cs3.extend(expand(c, c["g"] in cleared))
        res3 = engine.run_layout_cases(work, driver, props, cs3, tag="recheck-ctx", preshard=True)
        res3.violations = [v for v in res3.violations if res3.cases[v["case"]]["g"] in cleared]
        take(res3, "_after_earlier_calls")
        res.states += res3.states
        res.transitions += res3.transitions
    return res
