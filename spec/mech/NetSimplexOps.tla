--------------------------- MODULE NetSimplexOps ----------------------------
(***************************************************************************)
(* LAYER 3 -- the network-simplex layerer (internal/phase2/                *)
(* network_simplex.go) transcribed statement by statement as pure          *)
(* operators over an explicit state record, with per-edge weights and      *)
(* minimum lengths (all 1 in phase 2; the positioner's auxiliary graph     *)
(* uses both).  Same loops, same data structures, same                     *)
(* iteration orders as the Go code:                                        *)
(*   es.p          the edge list g.Edges (sequence of <<from, to>>)        *)
(*   es.inl[n], es.outl[n]  the node's edge lists n.In / n.Out, in list    *)
(*                 order (edge-list order unless phase 1 reversed edges)   *)
(*   VisitEdges    In(n) then Out(n)                                       *)
(*   g.Nodes       1..NN in index order                                    *)
(* The constants ACCUMULATE and RESET_TREE select the shipped variants of  *)
(* two repaired defects (D6: cut values accumulated across pivots; D5:     *)
(* tree marks kept between growth rounds), so that both the repaired and   *)
(* the original design can be model-checked.                               *)
(***************************************************************************)
EXTENDS Integers, Sequences, FiniteSets

CONSTANTS ACCUMULATE, RESET_TREE

Max(S) == CHOOSE x \in S : \A y \in S : y <= x
Min(S) == CHOOSE x \in S : \A y \in S : x <= y
RECURSIVE SumOver(_, _)
SumOver(f, S) == IF S = {} THEN 0 ELSE LET x == CHOOSE y \in S : TRUE IN f[x] + SumOver(f, S \ {x})

\* es = [p |-> the edge list, inl |-> n.In per node, outl |-> n.Out per node] (lists of edge positions in list order)
E(es) == DOMAIN es.p
In(es, n)  == es.inl[n]
Out(es, n) == es.outl[n]
\* the lists of a graph populated from an edge list on which phase 1 reversed nothing: edge-list order
MkAdj(NN, pairs) == [p |-> pairs, w |-> [i \in DOMAIN pairs |-> 1], d |-> [i \in DOMAIN pairs |-> 1],
                     inl  |-> [n \in 1..NN |-> SelectSeq([i \in DOMAIN pairs |-> i], LAMBDA i : pairs[i][2] = n)],
                     outl |-> [n \in 1..NN |-> SelectSeq([i \in DOMAIN pairs |-> i], LAMBDA i : pairs[i][1] = n)]]
MkAdjW(NN, pairs, wd) == [MkAdj(NN, pairs) EXCEPT !.w = [i \in DOMAIN pairs |-> wd[i][1]], !.d = [i \in DOMAIN pairs |-> wd[i][2]]]
Visit(es, n) == In(es, n) \o Out(es, n)
Other(es, e, n) == IF es.p[e][2] # n THEN es.p[e][2] ELSE es.p[e][1]
Slack(es, e, r) == r[es.p[e][2]] - r[es.p[e][1]] - es.d[e]          \* es.d[e] = the edge's minimum length (Delta)

\* ---- initLayers: Kahn's sweep from the sources in node order, layer = longest path from a source
RECURSIVE InitSweep(_, _, _, _, _)
InitSweep(es, NN, queue, unseen, r) ==
    IF queue = <<>> THEN r
    ELSE LET n == Head(queue)
             outs == Out(es, n)
             \* process n's out-edges in order
             step[k \in 0..Len(outs)] ==
                 IF k = 0 THEN [q |-> Tail(queue), u |-> unseen, rr |-> r]
                 ELSE LET p == step[k - 1]
                          m == es.p[outs[k]][2]
                          rr2 == [p.rr EXCEPT ![m] = IF @ > p.rr[n] + es.d[outs[k]] THEN @ ELSE p.rr[n] + es.d[outs[k]]]
                          u2 == [p.u EXCEPT ![m] = @ - 1]
                      IN [q |-> IF u2[m] = 0 THEN Append(p.q, m) ELSE p.q, u |-> u2, rr |-> rr2]
             fin == step[Len(outs)]
         IN InitSweep(es, NN, fin.q, fin.u, fin.rr)
InitRank(es, NN) ==
    LET indeg == [n \in 1..NN |-> Len(In(es, n))]
        srcs == SelectSeq([i \in 1..NN |-> i], LAMBDA n : indeg[n] = 0)
    IN InitSweep(es, NN, srcs, indeg, [n \in 1..NN |-> 0])

\* ---- tightTree: S = [ve |-> visited edges, vn |-> visited nodes, tree |-> edges marked IsInSpanningTree]
RECURSIVE TT(_, _, _, _), TTFold(_, _, _, _, _)
TT(es, n, S, r) == TTFold(es, Visit(es, n), [S EXCEPT !.vn = @ \cup {n}], n, r)
TTFold(es, q, S, n, r) ==
    IF q = <<>> THEN S ELSE
    LET e == Head(q) IN
    IF e \in S.ve THEN TTFold(es, Tail(q), S, n, r)
    ELSE LET S1 == [S EXCEPT !.ve = @ \cup {e}]  m == Other(es, e, n)
         IN IF e \in S1.tree THEN TTFold(es, Tail(q), TT(es, m, S1, r), n, r)       \* a marked edge is followed even if m was visited
            ELSE IF m \notin S1.vn /\ Slack(es, e, r) = 0
                 THEN TTFold(es, Tail(q), TT(es, m, [S1 EXCEPT !.tree = @ \cup {e}], r), n, r)
                 ELSE TTFold(es, Tail(q), S1, n, r)
TightTree(es, tree0, r) == TT(es, 1, [ve |-> {}, vn |-> {}, tree |-> IF RESET_TREE THEN {} ELSE tree0], r)

\* ---- incidentNonTreeEdge: tree nodes in node order, their edges in visit order, first edge of minimum slack
IncidentEdge(es, NN, S, r) ==
    LET cands == [n \in 1..NN |-> IF n \in S.vn
                    THEN SelectSeq(Visit(es, n), LAMBDA e : es.p[e][1] # es.p[e][2] /\ e \notin S.tree /\ Other(es, e, n) \notin S.vn)
                    ELSE <<>>]
        RECURSIVE Flat(_)
        Flat(n) == IF n > NN THEN <<>> ELSE cands[n] \o Flat(n + 1)
        all == Flat(1)
    IN IF all = <<>> THEN 0
       ELSE LET ms == Min({Slack(es, all[k], r) : k \in DOMAIN all})
            IN all[Min({k \in DOMAIN all : Slack(es, all[k], r) = ms})]

\* ---- walkStreeDfs: postorder numbers lim and low of the spanning tree, from node 1
RECURSIVE Walk(_, _, _, _, _), WFold(_, _, _, _, _, _)
Walk(es, n, W, lo, T) == LET W1 == [W EXCEPT !.low = [@ EXCEPT ![n] = lo]]
                             R  == WFold(es, Visit(es, n), W1, n, lo, T)
                         IN [R EXCEPT !.lim = [@ EXCEPT ![n] = R.nxt], !.nxt = R.nxt + 1]
WFold(es, q, W, n, l, T) ==
    IF q = <<>> THEN [W EXCEPT !.nxt = l] ELSE
    LET e == Head(q) IN
    IF e \in T /\ e \notin W.vis
    THEN LET R == Walk(es, Other(es, e, n), [W EXCEPT !.vis = @ \cup {e}], l, T) IN WFold(es, Tail(q), R, n, R.nxt, T)
    ELSE WFold(es, Tail(q), W, n, l, T)
Numbering(es, NN, T) == Walk(es, 1, [vis |-> {}, low |-> [n \in 1..NN |-> 0], lim |-> [n \in 1..NN |-> 0], nxt |-> 0], 1, T)

\* ---- inHeadComponent, setCutValues
InHead(es, n, e, lm, lw) == LET u == es.p[e][1] v == es.p[e][2] IN
    IF lm[u] < lm[v] THEN ~(lw[u] <= lm[n] /\ lm[n] <= lm[u]) ELSE lw[v] <= lm[n] /\ lm[n] <= lm[v]
CutOf(es, e, T, lm, lw) == es.w[e] + SumOver([f \in E(es) |-> IF f \in T THEN 0          \* es.w[e] = the edge's weight
        ELSE IF ~InHead(es, es.p[f][1], e, lm, lw) /\  InHead(es, es.p[f][2], e, lm, lw) THEN  es.w[f]
        ELSE IF  InHead(es, es.p[f][1], e, lm, lw) /\ ~InHead(es, es.p[f][2], e, lm, lw) THEN -es.w[f] ELSE 0], E(es))
NewCut(es, T, lm, lw, old) == [e \in E(es) |-> IF e \in T THEN (IF ACCUMULATE THEN old[e] ELSE 0) + CutOf(es, e, T, lm, lw) ELSE old[e]]

\* ---- negCutValueTreeEdge (first in edge order), minSlackNonTreeEdge (first of minimum slack from head to tail component)
Leave(es, st) == LET c == {e \in E(es) : e \in st.tree /\ st.cut[e] < 0} IN IF c = {} THEN 0 ELSE Min(c)
Enter(es, st, e) ==
    LET c == {f \in E(es) : f # e /\ f \notin st.tree /\ InHead(es, es.p[f][1], e, st.lim, st.low) /\ ~InHead(es, es.p[f][2], e, st.lim, st.low)}
    IN IF c = {} THEN 0 ELSE LET ms == Min({Slack(es, f, st.rank) : f \in c}) IN Min({f \in c : Slack(es, f, st.rank) = ms})

\* ---- one round of the feasibleTree loop; st = [phase, rank, tree, cut, lim, low, iter]
GrowStep(es, NN, st) ==
    LET S == TightTree(es, st.tree, st.rank) IN
    IF Cardinality(S.vn) = NN
    THEN LET W == Numbering(es, NN, S.tree)
         IN [st EXCEPT !.phase = "pivot", !.tree = S.tree, !.lim = W.lim, !.low = W.low,
                       !.cut = NewCut(es, S.tree, W.lim, W.low, st.cut), !.iter = 0]
    ELSE LET e == IncidentEdge(es, NN, S, st.rank) IN
         IF e = 0 THEN [st EXCEPT !.phase = "panic_no_incident_edge"]
         ELSE LET d0 == Slack(es, e, st.rank)
                  d == IF es.p[e][2] \in S.vn THEN -d0 ELSE d0
              IN [st EXCEPT !.rank = [n \in 1..NN |-> IF n \in S.vn THEN st.rank[n] + d ELSE st.rank[n]], !.tree = S.tree]

\* ---- one pivot of execNetworkSimplex's loop
PivotStep(es, NN, st, maxiter) ==
    LET e == Leave(es, st) IN
    IF e = 0 THEN [st EXCEPT !.phase = "balance"]
    ELSE IF st.iter >= maxiter THEN [st EXCEPT !.phase = "balance", !.capped = TRUE]
    ELSE LET f == Enter(es, st, e) IN
         IF f = 0 THEN [st EXCEPT !.phase = "balance", !.stuck = TRUE]
         ELSE LET d  == Slack(es, f, st.rank)
                  r2 == IF d > 0 THEN [n \in 1..NN |-> IF ~InHead(es, n, e, st.lim, st.low) THEN st.rank[n] - d ELSE st.rank[n]] ELSE st.rank
                  T2 == (st.tree \ {e}) \cup {f}
                  W  == Numbering(es, NN, T2)
              IN [st EXCEPT !.rank = r2, !.tree = T2, !.lim = W.lim, !.low = W.low,
                            !.cut = NewCut(es, T2, W.lim, W.low, st.cut), !.iter = @ + 1]

\* ---- normalize + vbalance
Normalize(NN, r) == LET lo == Min({r[n] : n \in 1..NN}) IN [n \in 1..NN |-> r[n] - lo]
RECURSIVE VBal(_, _, _, _, _, _)
VBal(es, NN, n, r, lsize, lmax) ==
    IF n > NN THEN r
    ELSE IF Len(In(es, n)) # Len(Out(es, n)) THEN VBal(es, NN, n + 1, r, lsize, lmax)
    ELSE LET ins == In(es, n) outs == Out(es, n)
             low == Max({0} \cup {r[es.p[ins[k]][1]] + es.d[ins[k]] : k \in DOMAIN ins})
             high == Min({lmax} \cup {r[es.p[outs[k]][2]] - es.d[outs[k]] : k \in DOMAIN outs})
             \* newl: the least crowded layer of low..high, the first one among equals
             best[i \in low..(IF high >= low THEN high ELSE low)] ==
                 IF i = low THEN low ELSE IF lsize[i] < lsize[best[i - 1]] THEN i ELSE best[i - 1]
             newl == IF high >= low THEN best[high] ELSE low
         IN IF lsize[newl] < lsize[r[n]]
            THEN VBal(es, NN, n + 1, [r EXCEPT ![n] = newl],
                      [lsize EXCEPT ![r[n]] = @ - 1, ![newl] = @ + 1], lmax)
            ELSE VBal(es, NN, n + 1, r, lsize, lmax)
VBalance(es, NN, r) ==
    LET lmax == Max({r[n] : n \in 1..NN})
        lsize == [i \in 0..lmax |-> Cardinality({n \in 1..NN : r[n] = i})]
    IN VBal(es, NN, 1, r, lsize, lmax)
BalanceStep(es, NN, st) == [st EXCEPT !.phase = "done", !.rank = VBalance(es, NN, Normalize(NN, st.rank))]

\* ---- hbalance (the positioner's balancing): every zero-cut tree edge, in edge order, shifts the subtree on its
\* lower-numbered side by the slack of the minimum-slack edge from its head to its tail component; lim/low and the
\* cut values are those of the final tree and are not recomputed while nodes move
RECURSIVE Adjust(_, _, _, _, _), AdjFold(_, _, _, _, _, _)
Adjust(es, st, n, delta, r) ==
    LET r1 == [r EXCEPT ![n] = @ - delta]
        r2 == AdjFold(es, st, Out(es, n), n, delta, r1)
    IN AdjFold(es, st, In(es, n), n, delta, r2)
AdjFold(es, st, q, n, delta, r) ==
    IF q = <<>> THEN r
    ELSE LET e == Head(q) m == Other(es, e, n)
         IN IF e \in st.tree /\ ~(st.lim[n] < st.lim[m]) THEN AdjFold(es, st, Tail(q), n, delta, Adjust(es, st, m, delta, r))
            ELSE AdjFold(es, st, Tail(q), n, delta, r)
RECURSIVE HBal(_, _, _, _)
HBal(es, st, e, r) ==
    IF e > Len(es.p) THEN r
    ELSE IF e \notin st.tree \/ st.cut[e] # 0 THEN HBal(es, st, e + 1, r)
    ELSE LET f == Enter(es, [st EXCEPT !.rank = r], e) IN
         IF f = 0 THEN HBal(es, st, e + 1, r)
         ELSE LET d == Slack(es, f, r) IN
              IF d < 1 THEN HBal(es, st, e + 1, r)
              ELSE IF st.lim[es.p[e][1]] < st.lim[es.p[e][2]] THEN HBal(es, st, e + 1, Adjust(es, st, es.p[e][1], d, r))
              ELSE HBal(es, st, e + 1, Adjust(es, st, es.p[e][2], -d, r))
HBalanceStep(es, NN, st) == [st EXCEPT !.phase = "done", !.rank = Normalize(NN, HBal(es, st, 1, Normalize(NN, st.rank)))]

\* ---- the whole algorithm as a function (used to predict the layers the real code assigns)
InitState(es, NN) == [phase |-> "tree", rank |-> InitRank(es, NN), tree |-> {}, cut |-> [e \in E(es) |-> 0],
                      lim |-> [n \in 1..NN |-> 0], low |-> [n \in 1..NN |-> 0], iter |-> 0, capped |-> FALSE, stuck |-> FALSE]
Step(es, NN, st, maxiter) ==
    CASE st.phase = "tree" -> GrowStep(es, NN, st)
      [] st.phase = "pivot" -> PivotStep(es, NN, st, maxiter)
      [] st.phase = "balance" -> BalanceStep(es, NN, st)
      [] OTHER -> st
RECURSIVE RunFrom(_, _, _, _, _)
RunFrom(es, NN, st, maxiter, fuel) ==
    IF st.phase \in {"done", "panic_no_incident_edge"} \/ fuel = 0 THEN st
    ELSE RunFrom(es, NN, Step(es, NN, st, maxiter), maxiter, fuel - 1)
RunNS(es, NN, maxiter) == RunFrom(es, NN, InitState(es, NN), maxiter, 400)
\* the positioner's variant: horizontal balancing at the end.  RunToBalance stops on entering the balancing phase
RECURSIVE RunToBalance(_, _, _, _, _)
RunToBalance(es, NN, st, maxiter, fuel) ==
    IF st.phase \in {"balance", "done", "panic_no_incident_edge"} \/ fuel = 0 THEN st
    ELSE RunToBalance(es, NN, Step(es, NN, st, maxiter), maxiter, fuel - 1)
RunNSH(es, NN, maxiter) ==
    LET st == RunToBalance(es, NN, InitState(es, NN), maxiter, 600)
    IN IF st.phase = "balance" THEN HBalanceStep(es, NN, st) ELSE st

\* ---- what the mechanism must establish
Feasible(es, r) == \A e \in E(es) : Slack(es, e, r) >= 0
TotalLen(es, r) == SumOver([e \in E(es) |-> es.w[e] * (r[es.p[e][2]] - r[es.p[e][1]])], E(es))
\* a set of edges is a spanning tree of the (connected) graph: n-1 edges, no cycle (every node reachable from 1 through them)
RECURSIVE TreeReach(_, _, _)
TreeReach(es, T, S) == LET S2 == S \cup {es.p[e][2] : e \in {f \in T : es.p[f][1] \in S}} \cup {es.p[e][1] : e \in {f \in T : es.p[f][2] \in S}}
                       IN IF S2 = S THEN S ELSE TreeReach(es, T, S2)
IsSpanningTree(es, NN, T) == Cardinality(T) = NN - 1 /\ TreeReach(es, T, {1}) = 1..NN
=============================================================================
