------------------------------ MODULE RouteOps ------------------------------
(***************************************************************************)
(* LAYER 3 -- phase 5 (internal/phase5) for the straight, polyline and     *)
(* orthogonal routers, as pure operators.  Input: the positioned proper    *)
(* graph of phase 4 (G: per node x, y, w, h, virt, layer; per edge ef, et; *)
(* lh[l] = height of layer l-1) and the position of a head edge in it.     *)
(* mergeLongEdges follows the chain of helper nodes from the head edge to  *)
(* the real node at its end; the route is the node list upper -> lower.    *)
(* All points are computed in HALF units (doubled), because the anchors    *)
(* halve widths, layer heights and the layer spacing.                      *)
(***************************************************************************)
EXTENDS Integers, Sequences, FiniteSets

\* the chain of nodes of the long edge that starts with head edge e: <<from, helper..., real end>>
RECURSIVE ChainFrom(_, _)
ChainFrom(G, n) == IF G.virt[n] = 0 THEN <<n>>
                   ELSE LET outs == {i \in DOMAIN G.ef : G.ef[i] = n}
                        IN IF Cardinality(outs) # 1 THEN <<n>> ELSE <<n>> \o ChainFrom(G, G.et[CHOOSE i \in outs : TRUE])
RouteNodes(G, e) == <<G.ef[e]>> \o ChainFrom(G, G.et[e])

Start2(G, n) == <<2 * G.x[n] + G.w[n], 2 * (G.y[n] + G.h[n])>>      \* bottom-centre
End2(G, n)   == <<2 * G.x[n] + G.w[n], 2 * G.y[n]>>                 \* top-centre
Straight2(G, rn) == <<Start2(G, rn[1]), End2(G, rn[Len(rn)])>>
Polyline2(G, rn) ==
    IF Len(rn) = 2 THEN Straight2(G, rn)
    ELSE <<Start2(G, rn[1])>>
         \o [j \in 1..(Len(rn) - 2) |-> LET n == rn[j + 1] IN <<2 * G.x[n] + G.w[n], 2 * G.y[n] + G.lh[G.layer[n] + 1]>>]
         \o <<End2(G, rn[Len(rn)])>>
RECURSIVE OrthoFrom(_, _, _, _)
OrthoFrom(G, rn, i, ls) ==
    IF i > Len(rn) THEN <<>>
    ELSE LET a == rn[i - 1] b == rn[i]
             sp0 == Start2(G, a)
             sp == IF G.virt[a] = 1 THEN <<sp0[1], sp0[2] + 2 * G.lh[G.layer[a] + 1]>> ELSE sp0
             ep == End2(G, b)
             bend == ep[2] - ls          \* 2 * (ep.y - LayerSpacing / 2), ls in whole units
         IN <<sp, <<sp[1], bend>>, <<ep[1], bend>>, ep>> \o OrthoFrom(G, rn, i + 1, ls)
Ortho2(G, rn, ls) ==
    LET f == rn[1] t == rn[Len(rn)] IN
    IF 2 * G.x[f] + G.w[f] = 2 * G.x[t] + G.w[t] THEN Straight2(G, rn)     \* vertically aligned end points
    ELSE OrthoFrom(G, rn, 2, ls)
Route2(G, e, style, ls) ==
    LET rn == RouteNodes(G, e) IN
    CASE style = "straight" -> Straight2(G, rn)
      [] style = "poly" -> Polyline2(G, rn)
      [] style = "ortho" -> Ortho2(G, rn, ls)
      [] OTHER -> <<>>
=============================================================================
