------------------------------ MODULE RouteOps ------------------------------
(***************************************************************************)
(* LAYER 3 -- phase 5 (internal/phase5) for the straight, polyline and     *)
(* orthogonal routers, as pure operators.  Input: the positioned proper    *)
(* graph of phase 4 (G: per node x, y, w, h, virt, layer; per edge ef, et; *)
(* lh[l] = height of layer l-1) and the position of a head edge in it.     *)
(* mergeLongEdges follows the chain of helper nodes from the head edge to  *)
(* the real node at its end; the route is the node list upper -> lower.    *)
(* All points are computed in HALF units (doubled), because the anchors    *)
(* halve widths, layer heights and the layer spacing.                      *)
(***************************************************************************)
EXTENDS Integers, Sequences, FiniteSets

\* the chain of nodes of the long edge that starts with head edge e: <<from, helper..., real end>>
RECURSIVE ChainFrom(_, _)
ChainFrom(G, n) == IF G.virt[n] = 0 THEN <<n>>
                   ELSE LET outs == {i \in DOMAIN G.ef : G.ef[i] = n}
                        IN IF Cardinality(outs) # 1 THEN <<n>> ELSE <<n>> \o ChainFrom(G, G.et[CHOOSE i \in outs : TRUE])
RouteNodes(G, e) == <<G.ef[e]>> \o ChainFrom(G, G.et[e])

Start2(G, n) == <<2 * G.x[n] + G.w[n], 2 * (G.y[n] + G.h[n])>>      \* bottom-centre
End2(G, n)   == <<2 * G.x[n] + G.w[n], 2 * G.y[n]>>                 \* top-centre
Straight2(G, rn) == <<Start2(G, rn[1]), End2(G, rn[Len(rn)])>>
Polyline2(G, rn) ==
    IF Len(rn) = 2 THEN Straight2(G, rn)
    ELSE <<Start2(G, rn[1])>>
         \o [j \in 1..(Len(rn) - 2) |-> LET n == rn[j + 1] IN <<2 * G.x[n] + G.w[n], 2 * G.y[n] + G.lh[G.layer[n] + 1]>>]
         \o <<End2(G, rn[Len(rn)])>>
RECURSIVE OrthoFrom(_, _, _, _)
OrthoFrom(G, rn, i, ls) ==
    IF i > Len(rn) THEN <<>>
    ELSE LET a == rn[i - 1] b == rn[i]
             sp0 == Start2(G, a)
             sp == IF G.virt[a] = 1 THEN <<sp0[1], sp0[2] + 2 * G.lh[G.layer[a] + 1]>> ELSE sp0
             ep == End2(G, b)
             bend == ep[2] - ls          \* 2 * (ep.y - LayerSpacing / 2), ls in whole units
         IN <<sp, <<sp[1], bend>>, <<ep[1], bend>>, ep>> \o OrthoFrom(G, rn, i + 1, ls)
Ortho2(G, rn, ls) ==
    LET f == rn[1] t == rn[Len(rn)] IN
    IF 2 * G.x[f] + G.w[f] = 2 * G.x[t] + G.w[t] THEN Straight2(G, rn)     \* vertically aligned end points
    ELSE OrthoFrom(G, rn, 2, ls)
\* ---- the spline router's corridor (splines.go: buildRects, rectBetweenLayers, rectVirtualNode, rectBetweenNodes).
\* Rectangles are <<left, top, right, bottom>> in SIXTHS of the unit of G (the rectangle next to a helper node is narrowed
\* by a third of the gap on either side).  G also needs G.pos (0-based position in the layer) and G.layers (layer l-1 as
\* a sequence of nodes).  Ten = the constant 10 of rectVirtualNode in units of G.
Min2(a, b) == IF a < b THEN a ELSE b
Max2(a, b) == IF a > b THEN a ELSE b
RectBetweenLayers6(G, l1, l2) ==
    LET q1 == G.layers[l1 + 1]  q2 == G.layers[l2 + 1]
        h1 == q1[1]  h2 == q2[1]  t1 == q1[Len(q1)]  t2 == q2[Len(q2)]
    IN <<6 * Min2(G.x[h1], G.x[h2]), 6 * (G.y[h1] + G.lh[l1 + 1]), 6 * Max2(G.x[t1] + G.w[t1], G.x[t2] + G.w[t2]), 6 * G.y[t2]>>
\* "PANIC" where the Go code indexes past the end of a layer that holds nothing but the helper node
RectVirtualNode6(G, vn, Ten) ==
    LET q == G.layers[G.layer[vn] + 1]  p == G.pos[vn] IN
    IF Len(q) = 1 THEN <<"PANIC">>
    ELSE IF p = 0 THEN LET n == q[2] IN <<6 * (G.x[vn] - Ten), 6 * G.y[n], 6 * G.x[n], 6 * (G.y[n] + G.h[n])>>
    ELSE IF p = Len(q) - 1 THEN LET n == q[p] IN <<6 * (G.x[n] + G.w[n]), 6 * G.y[n], 6 * (G.x[vn] + Ten), 6 * (G.y[n] + G.h[n])>>
    ELSE LET n1 == q[p]  n2 == q[p + 2]
             d == G.x[n2] - (G.x[n1] + G.w[n1])
         IN <<6 * (G.x[n1] + G.w[n1]) + 2 * d, 6 * G.y[n1], 6 * G.x[n2] - 2 * d, 6 * (G.y[n2] + G.h[n2])>>
RECURSIVE BuildRects6(_, _, _, _)
BuildRects6(G, rn, i, Ten) ==
    IF i > Len(rn) THEN <<>>
    ELSE LET top == rn[i - 1]  btm == rn[i]
             here == IF G.virt[top] = 0 /\ G.virt[btm] = 0
                     THEN << <<6 * Min2(G.x[top], G.x[btm]), 6 * (G.y[top] + G.h[top]),
                               6 * Max2(G.x[top] + G.w[top], G.x[btm] + G.w[btm]), 6 * G.y[btm]>> >>
                     ELSE IF G.virt[btm] = 1
                     THEN <<RectBetweenLayers6(G, G.layer[top], G.layer[btm]), RectVirtualNode6(G, btm, Ten)>>
                     ELSE <<RectBetweenLayers6(G, G.layer[top], G.layer[btm])>>
         IN here \o BuildRects6(G, rn, i + 1, Ten)
SplineStart6(G, rn) == <<6 * G.x[rn[1]] + 3 * G.w[rn[1]], 6 * (G.y[rn[1]] + G.h[rn[1]])>>
SplineEnd6(G, rn) == LET t == rn[Len(rn)] IN <<6 * G.x[t] + 3 * G.w[t], 6 * G.y[t]>>
\* what geom.Shortest needs of a corridor (CorridorOps!WellFormed, restated on 4-tuples) and of the two end points
RectOK(r) == Len(r) = 4 /\ r[1] < r[3] /\ r[2] < r[4]
CorridorOK(rs) == /\ Len(rs) >= 1 /\ \A i \in DOMAIN rs : RectOK(rs[i])
                  /\ \A t \in 1..(Len(rs) - 1) : /\ rs[t + 1][2] = rs[t][4]
                                                  /\ Max2(rs[t][1], rs[t + 1][1]) < Min2(rs[t][3], rs[t + 1][3])
PointIn(p, r) == r[1] <= p[1] /\ p[1] <= r[3] /\ r[2] <= p[2] /\ p[2] <= r[4]
SplineInputOK(G, rn, Ten) == LET rs == BuildRects6(G, rn, 2, Ten) IN
    CorridorOK(rs) /\ PointIn(SplineStart6(G, rn), rs[1]) /\ PointIn(SplineEnd6(G, rn), rs[Len(rs)])

Route2(G, e, style, ls) ==
    LET rn == RouteNodes(G, e) IN
    CASE style = "straight" -> Straight2(G, rn)
      [] style = "poly" -> Polyline2(G, rn)
      [] style = "ortho" -> Ortho2(G, rn, ls)
      [] OTHER -> <<>>
=============================================================================
