----------------------------- MODULE LongestPath ----------------------------
(***************************************************************************)
(* LAYER 3 -- exhaustive exploration of the longest-path layerer: every    *)
(* connected DAG multigraph of the bound (built edge by edge, canonical    *)
(* node numbering) x EVERY visit order of the nodes (the Go code's order   *)
(* comes from an unstable sort; C11 must hold for all of them), one root   *)
(* visit per step.  Checked:                                               *)
(*   MemoIsFinal      a height, once written, is the length of the longest *)
(*                    path from that node (so revisits can reuse it)       *)
(*   RunningMax       nlayers is the maximum of the heights written so far *)
(*   HeightsRight     at the end height = longest path to a sink   (C11)   *)
(*   BandsMinimal     layers used = 0..(longest path - 1), every sink in   *)
(*                    the last one                                 (C11)   *)
(*   FeasibleLP       every edge goes at least one layer down      (C03)   *)
(*   OrderIrrelevant  the layers equal those of the visit in node order    *)
(***************************************************************************)
EXTENDS LongestPathOps, TLC

CONSTANTS NN, MM

VARIABLES pairs, order, S, idx, phase
vars == <<pairs, order, S, idx, phase>>

NodesOf(s) == IF s = <<>> THEN {} ELSE {s[i][1] : i \in DOMAIN s} \cup {s[i][2] : i \in DOMAIN s}
K == Cardinality(NodesOf(pairs))
es == [p |-> pairs, d |-> [i \in DOMAIN pairs |-> 1],
       outl |-> [n \in 1..K |-> SelectSeq([i \in DOMAIN pairs |-> i], LAMBDA i : pairs[i][1] = n)]]
RECURSIVE Reach(_, _)
Reach(s, T) == LET T2 == T \cup {s[i][2] : i \in {j \in DOMAIN s : s[j][1] \in T}} IN IF T2 = T THEN T ELSE Reach(s, T2)

Init == pairs = <<>> /\ order = <<>> /\ S = LPInit(0) /\ idx = 0 /\ phase = "build"
AddEdge == /\ phase = "build" /\ Len(pairs) < MM
           /\ \E u, v \in 1..NN :
                 /\ u # v
                 /\ IF pairs = <<>> THEN u = 1 /\ v = 2
                    ELSE \/ (u <= K /\ v <= K) \/ (u <= K /\ v = K + 1) \/ (u = K + 1 /\ v <= K)
                 /\ u \notin Reach(pairs, {v})
                 /\ pairs' = Append(pairs, <<u, v>>)
           /\ UNCHANGED <<order, S, idx, phase>>
Perms(n) == {f \in [1..n -> 1..n] : \A i, j \in 1..n : i # j => f[i] # f[j]}
Start == /\ phase = "build" /\ pairs # <<>>
         /\ \E f \in Perms(K) : order' = f
         /\ S' = LPInit(K) /\ idx' = 1 /\ phase' = "visit" /\ UNCHANGED pairs
Visit == /\ phase = "visit" /\ idx <= K
         /\ S' = Follow(es, order[idx], S) /\ idx' = idx + 1
         /\ phase' = (IF idx = K THEN "done" ELSE "visit") /\ UNCHANGED <<pairs, order>>
Next == AddEdge \/ Start \/ Visit
Spec == Init /\ [][Next]_vars

Layer(n) == S.nlayers - S.height[n]
MemoIsFinal == phase \in {"visit", "done"} => \A n \in 1..K : S.height[n] >= 0 => S.height[n] = PathLen(es, K)[n]
RunningMax == phase \in {"visit", "done"} =>
                 S.nlayers = (IF \A n \in 1..K : S.height[n] < 0 THEN 0
                              ELSE CHOOSE x \in {S.height[n] : n \in 1..K} : \A y \in {S.height[n] : n \in 1..K} : y <= x)
HeightsRight == phase = "done" => S.height = PathLen(es, K)
BandsMinimal == phase = "done" => /\ {Layer(n) : n \in 1..K} = 0..(S.nlayers - 1)
                                  /\ \A n \in 1..K : es.outl[n] = <<>> => Layer(n) = S.nlayers - 1
                                  /\ \A n \in 1..K : es.outl[n] # <<>> => \E i \in DOMAIN es.outl[n] : Layer(pairs[es.outl[n][i]][2]) = Layer(n) + 1
FeasibleLP == phase = "done" => \A i \in DOMAIN pairs : Layer(pairs[i][2]) >= Layer(pairs[i][1]) + 1
OrderIrrelevant == phase = "done" => [n \in 1..K |-> Layer(n)] = LPLayers(es, K, [n \in 1..K |-> n])
\* non-vacuity: a visit that finds its node already numbered (the memo is used)
Goal_MemoHit == ~(phase = "visit" /\ idx <= K /\ S.height[order[idx]] >= 0)
=============================================================================
