----------------------------- MODULE NetSimplex -----------------------------
(***************************************************************************)
(* LAYER 3 -- exhaustive exploration of the network-simplex layerer.       *)
(*                                                                         *)
(* The input (a connected acyclic multigraph in canonical form, at most NN *)
(* nodes and MM edges) is built edge by edge by AddEdge, then the          *)
(* algorithm of NetSimplexOps runs one loop iteration per step: growth     *)
(* rounds of the feasible tree, pivots, normalisation + balancing.  TLC    *)
(* explores every input of the bound and checks in every state             *)
(*   Feasible        every edge has slack >= 0  (C03: edges span >= 1 band) *)
(*   TreeIsSpanning  the marked edges form a spanning tree while pivoting  *)
(*   CutValuesRight  every tree edge carries its cut value as defined      *)
(*   NoPanic         the explicit panic sites are unreachable      (C01)   *)
(* and at the end                                                          *)
(*   Optimal         total edge length = brute-force minimum unless the    *)
(*                   pivot budget ran out                          (C10)   *)
(*   Contiguous      no empty layer between two used ones          (C10)   *)
(* plus the action property ObjectiveNeverIncreases.  The goal predicates  *)
(* name the coincidences behind the repaired defects; TLC's coverage shows *)
(* that the bounded model reaches them (non-vacuity).                      *)
(***************************************************************************)
EXTENDS NetSimplexOps, TLC, Json

CONSTANTS NN, MM, Thoroughness, Parallel,    \* Parallel: allow parallel edges
          Weights, Deltas,                  \* every edge takes a weight and a minimum length from these sets ({1}, {1} in phase 2)
          Mode                              \* "V": the layerer (vbalance); "H": the positioner's run (hbalance, then normalize)

VARIABLES pairs, wd, st
vars == <<pairs, wd, st>>
es == MkAdjW(Cardinality(IF pairs = <<>> THEN {} ELSE {pairs[i][1] : i \in DOMAIN pairs} \cup {pairs[i][2] : i \in DOMAIN pairs}), pairs, wd)

NodesOf(s) == IF s = <<>> THEN {} ELSE {s[i][1] : i \in DOMAIN s} \cup {s[i][2] : i \in DOMAIN s}
Seen(s) == Cardinality(NodesOf(s))
\* reachability for the acyclicity test while building
RECURSIVE Reach(_, _)
Reach(s, S) == LET T == S \cup {s[i][2] : i \in {j \in DOMAIN s : s[j][1] \in S}} IN IF T = S THEN S ELSE Reach(s, T)

Init == pairs = <<>> /\ wd = <<>> /\ st = [phase |-> "build"]
\* canonical (first-appearance order), connected at every step, acyclic, optionally without parallel edges
AddEdge == /\ st.phase = "build" /\ Len(pairs) < MM
           /\ \E u, v \in 1..NN :
                 LET k == Seen(pairs) IN
                 /\ u # v
                 /\ IF pairs = <<>> THEN u = 1 /\ v = 2
                    ELSE \/ (u <= k /\ v <= k)
                         \/ (u <= k /\ v = k + 1) \/ (u = k + 1 /\ v <= k)
                 /\ u \notin Reach(pairs, {v})
                 /\ (Parallel \/ \A i \in DOMAIN pairs : pairs[i] # <<u, v>>)
                 /\ pairs' = Append(pairs, <<u, v>>)
           /\ \E w \in Weights, d \in Deltas : wd' = Append(wd, <<w, d>>)
           /\ UNCHANGED st
MaxIter == Thoroughness * (CHOOSE k \in 0..NN : k * k <= Seen(pairs) /\ (k + 1) * (k + 1) > Seen(pairs))
Start == /\ st.phase = "build" /\ Len(pairs) >= 1
         /\ st' = InitState(es, Seen(pairs)) /\ UNCHANGED <<pairs, wd>>
Run == /\ st.phase \in {"tree", "pivot", "balance"}
       /\ st' = (IF st.phase = "balance" /\ Mode = "H" THEN HBalanceStep(es, Seen(pairs), st) ELSE Step(es, Seen(pairs), st, MaxIter))
       /\ UNCHANGED <<pairs, wd>>
Next == AddEdge \/ Start \/ Run
Spec == Init /\ [][Next]_vars

Running == st.phase \in {"tree", "pivot", "balance", "done"}
FeasibleInv == Running => Feasible(es, st.rank)
TreeIsSpanning == st.phase = "pivot" => IsSpanningTree(es, Seen(pairs), st.tree)
CutValuesRight == st.phase = "pivot" => \A e \in st.tree : st.cut[e] = CutOf(es, e, st.tree, st.lim, st.low)
NoPanic == st.phase # "panic_no_incident_edge"
\* brute-force optimum over all rank functions
MinTotal == LET n == Seen(pairs) IN
            Min({TotalLen(es, r) : r \in {f \in [1..n -> 0..((n - 1) * Max(Deltas))] : Feasible(es, f)}})
Optimal == (st.phase = "done" /\ ~st.capped) => TotalLen(es, st.rank) = MinTotal
NotStuck == Running => ~st.stuck
\* the positioner's balancing moves subtrees along edges of cut value 0: same objective, and the lowest layer is 0 again
HBalanceKeepsObjective == [][(st.phase = "balance" /\ st'.phase = "done") => TotalLen(es, st'.rank) = TotalLen(es, st.rank)]_vars
LowestIsZero == st.phase = "done" => Min({st.rank[n] : n \in 1..Seen(pairs)}) = 0
Goal_HBalanceMoves == ~(Mode = "H" /\ st.phase = "balance" /\ LET r == Normalize(Seen(pairs), st.rank) IN HBal(es, st, 1, r) # r)
Contiguous == st.phase = "done" => LET used == {st.rank[n] : n \in 1..Seen(pairs)} IN used = 0..Max(used)
ObjectiveNeverIncreases == [][(st.phase = "pivot" /\ st'.phase = "pivot") => TotalLen(es, st'.rank) <= TotalLen(es, st.rank)]_vars

\* goal predicates (reached = the bounded model exercises the coincidence)
Goal_SecondGrowthRound == ~(st.phase = "tree" /\ st.tree # {})                       \* D5 needs a second round
Goal_SecondPivot == ~(st.phase = "pivot" /\ st.iter >= 2)                            \* D6 needs a second pivot
Goal_BalanceMovesNode == ~(st.phase = "done" /\ \E n \in 1..Seen(pairs) : Len(In(es, n)) = Len(Out(es, n)) /\ Len(In(es, n)) > 0)
=============================================================================
