--------------------------- MODULE CycleBreakOps ----------------------------
(***************************************************************************)
(* LAYER 3 -- phase 1 (internal/phase1) transcribed as pure operators:     *)
(* the two-node-cycle pre-pass, the depth-first breaker and the greedy     *)
(* breaker (Eades-Lin-Smyth arc diagram, deterministic node choice), with  *)
(* Go's data structures:                                                   *)
(*   G.es        g.Edges: sequence of [f, t, rev]; position = identity     *)
(*   G.inl[n]    n.In:  sequence of edge positions, in list order          *)
(*   G.outl[n]   n.Out: sequence of edge positions, in list order          *)
(*   nodes       1..NN in g.Nodes order                                    *)
(* Edge.Reverse removes the edge from from.Out / to.In (order of the rest  *)
(* kept) and APPENDS it to from.In / to.Out: the list orders after phase 1 *)
(* depend on the order of the reversals, which is why the repaired code    *)
(* collects the edges to reverse in slices, not in sets.                   *)
(***************************************************************************)
EXTENDS Integers, Sequences, FiniteSets

Max(S) == CHOOSE x \in S : \A y \in S : y <= x
Min(S) == CHOOSE x \in S : \A y \in S : x <= y
RemoveFrom(q, x) == SelectSeq(q, LAMBDA y : y # x)

\* the graph as populated from an edge list (self-loops already stripped)
MkGraph(NN, pairs) ==
    [es   |-> [i \in DOMAIN pairs |-> [f |-> pairs[i][1], t |-> pairs[i][2], rev |-> 0]],
     inl  |-> [n \in 1..NN |-> SelectSeq([i \in DOMAIN pairs |-> i], LAMBDA i : pairs[i][2] = n)],
     outl |-> [n \in 1..NN |-> SelectSeq([i \in DOMAIN pairs |-> i], LAMBDA i : pairs[i][1] = n)]]

\* Edge.Reverse
Reverse(G, e) ==
    LET from == G.es[e].f  to == G.es[e].t
        out1 == [G.outl EXCEPT ![from] = RemoveFrom(@, e)]
        in1  == [G.inl  EXCEPT ![to]   = RemoveFrom(@, e)]
        in2  == [in1  EXCEPT ![from] = Append(@, e)]
        out2 == [out1 EXCEPT ![to]   = Append(@, e)]
    IN [es |-> [G.es EXCEPT ![e] = [f |-> to, t |-> from, rev |-> 1 - @.rev]], inl |-> in2, outl |-> out2]
RECURSIVE ReverseAll(_, _)
ReverseAll(G, q) == IF q = <<>> THEN G ELSE ReverseAll(Reverse(G, Head(q)), Tail(q))

Arcs(G) == {<<G.es[i].f, G.es[i].t>> : i \in DOMAIN G.es}
RECURSIVE Strip(_, _)
Strip(N, A) == LET src == {v \in N : ~\E a \in A : a[2] = v}
               IN IF N = {} THEN TRUE ELSE IF src = {} THEN FALSE ELSE Strip(N \ src, {a \in A : a[1] \notin src})
Acyclic(NN, G) == Strip(1..NN, Arcs(G))

\* ---- removeTwoNodeCycles: the second edge of an antiparallel pair is reversed (in edge order)
RECURSIVE TwoCycleScan(_, _, _, _)
TwoCycleScan(G, i, seen, rev) ==
    IF i > Len(G.es) THEN rev
    ELSE LET a == G.es[i].f  b == G.es[i].t
         IN IF <<b, a>> \in seen THEN TwoCycleScan(G, i + 1, seen, Append(rev, i))
            ELSE TwoCycleScan(G, i + 1, seen \cup {<<a, b>>}, rev)
PrePass(G) == ReverseAll(G, TwoCycleScan(G, 1, {}, <<>>))

\* ---- depth-first breaker: S = [visited, active, rv]; out-lists are not mutated during the search
RECURSIVE DfsVisit(_, _, _), DfsFold(_, _, _, _)
DfsVisit(G, n, S) ==
    IF n \in S.visited THEN S
    ELSE LET S1 == [S EXCEPT !.visited = @ \cup {n}, !.active = @ \cup {n}]
             S2 == DfsFold(G, G.outl[n], n, S1)
         IN [S2 EXCEPT !.active = @ \ {n}]
DfsFold(G, q, n, S) ==
    IF q = <<>> THEN S
    ELSE LET e == Head(q) to == G.es[e].t
         IN IF to \in S.active THEN DfsFold(G, Tail(q), n, [S EXCEPT !.rv = Append(@, e)])
            ELSE DfsFold(G, Tail(q), n, DfsVisit(G, to, S))
RECURSIVE DfsRoots(_, _, _)
DfsRoots(G, roots, S) == IF roots = <<>> THEN S ELSE DfsRoots(G, Tail(roots), DfsVisit(G, Head(roots), S))
DepthFirst(NN, G) ==
    LET srcs == SelectSeq([n \in 1..NN |-> n], LAMBDA n : G.inl[n] = <<>>)
        S1 == DfsRoots(G, srcs, [visited |-> {}, active |-> {}, rv |-> <<>>])
        S2 == DfsRoots(G, [n \in 1..NN |-> n], S1)
    IN ReverseAll(G, S2.rv)

\* ---- greedy breaker.  P = [arc, outdeg, indeg, sources, sinks, left, right, i]
UpdateNeighbors(G, n, P) ==
    LET RECURSIVE InFold(_, _), OutFold(_, _)
        InFold(q, X) == IF q = <<>> THEN X
                        ELSE LET src == G.es[Head(q)].f
                             IN IF src = n \/ X.arc[src] # 0 THEN InFold(Tail(q), X)
                                ELSE LET od == X.outdeg[src] - 1
                                         X1 == [X EXCEPT !.outdeg[src] = od]
                                     IN InFold(Tail(q), IF od <= 0 /\ X.indeg[src] > 0 THEN [X1 EXCEPT !.sinks = Append(@, src)] ELSE X1)
        OutFold(q, X) == IF q = <<>> THEN X
                         ELSE LET tgt == G.es[Head(q)].t
                              IN IF tgt = n \/ X.arc[tgt] # 0 THEN OutFold(Tail(q), X)
                                 ELSE LET id == X.indeg[tgt] - 1
                                          X1 == [X EXCEPT !.indeg[tgt] = id]
                                      IN OutFold(Tail(q), IF id <= 0 /\ X.outdeg[tgt] > 0 THEN [X1 EXCEPT !.sources = Append(@, tgt)] ELSE X1)
    IN OutFold(G.outl[n], InFold(G.inl[n], P))
RECURSIVE DrainSinks(_, _), DrainSources(_, _), PickLoop(_, _, _)
DrainSinks(G, P) ==
    IF P.sinks = <<>> THEN P
    ELSE LET n == Head(P.sinks)
             P1 == [P EXCEPT !.sinks = Tail(@), !.arc[n] = P.right, !.right = @ - 1, !.i = @ - 1]
         IN DrainSinks(G, UpdateNeighbors(G, n, P1))
DrainSources(G, P) ==
    IF P.sources = <<>> THEN P
    ELSE LET n == Head(P.sources)
             P1 == [P EXCEPT !.sources = Tail(@), !.arc[n] = P.left, !.left = @ + 1, !.i = @ - 1]
         IN DrainSources(G, UpdateNeighbors(G, n, P1))
\* the unprocessed node of maximal outflow; among equals the one in the middle of the candidates (in node order)
PickLoop(NN, G, P) ==
    IF P.i <= 0 THEN P
    ELSE LET un == SelectSeq([n \in 1..NN |-> n], LAMBDA n : P.arc[n] = 0)
         IN IF un = <<>> THEN [P EXCEPT !.i = -1000]                 \* "expected maxOutflow strictly greater than MinInt": a panic site
            ELSE LET mx == Max({P.outdeg[un[k]] - P.indeg[un[k]] : k \in DOMAIN un})
                     cands == SelectSeq(un, LAMBDA n : P.outdeg[n] - P.indeg[n] = mx)
                     n == cands[(Len(cands) \div 2) + 1]
                     P1 == [P EXCEPT !.arc[n] = P.left, !.left = @ + 1, !.i = @ - 1]
                 IN PickLoop(NN, G, UpdateNeighbors(G, n, P1))
RECURSIVE GreedyOuter(_, _, _, _)
GreedyOuter(NN, G, P, fuel) ==
    IF P.i <= 0 \/ fuel = 0 THEN P
    ELSE GreedyOuter(NN, G, PickLoop(NN, G, DrainSources(G, DrainSinks(G, P))), fuel - 1)
GreedyRanks(NN, G) ==
    LET P0 == [arc |-> [n \in 1..NN |-> 0],
               outdeg |-> [n \in 1..NN |-> Len(G.outl[n])], indeg |-> [n \in 1..NN |-> Len(G.inl[n])],
               sources |-> SelectSeq([n \in 1..NN |-> n], LAMBDA n : G.inl[n] = <<>>),
               sinks |-> SelectSeq([n \in 1..NN |-> n], LAMBDA n : G.outl[n] = <<>>),
               left |-> 1, right |-> -1, i |-> NN]
        P == GreedyOuter(NN, G, P0, NN + 1)
    IN [n \in 1..NN |-> IF P.arc[n] < 0 THEN P.arc[n] + NN + 1 ELSE P.arc[n]]
Greedy(NN, G) ==
    LET rk == GreedyRanks(NN, G)
        RECURSIVE Collect(_, _)
        Collect(n, acc) == IF n > NN THEN acc
                           ELSE Collect(n + 1, acc \o SelectSeq(G.outl[n], LAMBDA e : rk[n] > rk[G.es[e].t]))
    IN ReverseAll(G, Collect(1, <<>>))

\* ---- Alg.Process
BreakCycles(NN, G0, alg) ==
    IF NN = 1 THEN G0
    ELSE LET G1 == PrePass(G0)
         IN IF Acyclic(NN, G1) THEN G1
            ELSE IF alg = "dfs" THEN DepthFirst(NN, G1) ELSE Greedy(NN, G1)

\* ---- what phase 1 must establish
ReversedSet(G) == {i \in DOMAIN G.es : G.es[i].rev = 1}
\* un-reversing edge i alone closes a directed cycle: its current head reaches its current tail without it
RECURSIVE ReachW(_, _, _)
ReachW(G, skip, S) == LET T == S \cup {G.es[i].t : i \in {j \in DOMAIN G.es : j # skip /\ G.es[j].f \in S}}
                      IN IF T = S THEN S ELSE ReachW(G, skip, T)
Irredundant(G) == \A i \in ReversedSet(G) : G.es[i].t \in ReachW(G, i, {G.es[i].f})
\* the edge lists mirror the edges (every edge once in its source's out-list and once in its target's in-list)
ListsConsistent(NN, G) ==
    \A i \in DOMAIN G.es :
        /\ Cardinality({k \in DOMAIN G.outl[G.es[i].f] : G.outl[G.es[i].f][k] = i}) = 1
        /\ Cardinality({k \in DOMAIN G.inl[G.es[i].t] : G.inl[G.es[i].t][k] = i}) = 1
        /\ \A n \in 1..NN : (n # G.es[i].f => \A k \in DOMAIN G.outl[n] : G.outl[n][k] # i)
                            /\ (n # G.es[i].t => \A k \in DOMAIN G.inl[n] : G.inl[n][k] # i)
=============================================================================
