------------------------------ MODULE Position ------------------------------
(***************************************************************************)
(* LAYER 3 -- exhaustive exploration of the positioners of PositionOps on  *)
(* every proper layered ordered graph of the bound: Layers layers of 1..   *)
(* MaxPer nodes (at most MaxNodes in all), widths from Widths, any set of  *)
(* edges between adjacent layers with at most MaxIn in-edges per node      *)
(* (in-lists in edge order); the zero-width nodes of the inner layers are  *)
(* helper nodes.  Checked for each graph:                                  *)
(*   SinkTerminates   placeBlock reaches a round without shift     (C01)   *)
(*   SinkSeparates    neighbours in a layer are at least width +           *)
(*                    NodeSpacing apart                            (C04)   *)
(*   SinkKeepsOrder   x is non-decreasing along every layer        (C12)   *)
(*   VAlignCentres, PackRightAligns, ExactSpacing                  (C16)   *)
(* Goal predicates: EqualBlockMax (two blocks with the same x),            *)
(* NarrowRightOfWide (the coincidences behind repaired defect D12).        *)
(***************************************************************************)
EXTENDS PositionOps, TLC

CONSTANTS Layers, MaxPer, MaxNodes, Widths, MaxIn, NS

VARIABLE G
vars == <<G>>

\* node numbering: layer by layer, left to right
Shapes == [1..Layers -> 1..MaxPer]
Start(sh, l) == SumTo([m \in 1..(l - 1) |-> sh[m]], l - 1)
NodesOfLayer(sh, l) == [j \in 1..sh[l] |-> Start(sh, l) + j]
K(sh) == Start(sh, Layers + 1)
PairsBetween(sh, l) == {<<u, v>> : u \in {Start(sh, l) + j : j \in 1..sh[l]}, v \in {Start(sh, l + 1) + j : j \in 1..sh[l + 1]}}
AllPairs(sh) == UNION {PairsBetween(sh, l) : l \in 1..(Layers - 1)}
\* edge list = the chosen pairs in lexicographic order
RECURSIVE SeqOfPairs(_)
SeqOfPairs(S) == IF S = {} THEN <<>>
                 ELSE LET m == CHOOSE p \in S : \A q \in S : p[1] < q[1] \/ (p[1] = q[1] /\ p[2] <= q[2])
                      IN <<m>> \o SeqOfPairs(S \ {m})
Mk(sh, ws, vs, E) ==
    LET es == SeqOfPairs(E) k == K(sh) IN
    [k |-> k, w |-> ws, h |-> [n \in 1..k |-> 0], virt |-> vs,
     layer |-> [n \in 1..k |-> (CHOOSE l \in 1..Layers : Start(sh, l) < n /\ n <= Start(sh, l) + sh[l]) - 1],
     pos |-> [n \in 1..k |-> n - Start(sh, CHOOSE l \in 1..Layers : Start(sh, l) < n /\ n <= Start(sh, l) + sh[l]) - 1],
     ef |-> [i \in DOMAIN es |-> es[i][1]], et |-> [i \in DOMAIN es |-> es[i][2]],
     inl |-> [n \in 1..k |-> SelectSeq([i \in DOMAIN es |-> i], LAMBDA i : es[i][2] = n)],
     layers |-> [l \in 1..Layers |-> NodesOfLayer(sh, l)]]
\* helper nodes: the zero-width nodes of the inner layers
Init == \E sh \in {s \in Shapes : K(s) <= MaxNodes} :
          \E E \in {F \in SUBSET AllPairs(sh) : \A n \in 1..K(sh) : Cardinality({p \in F : p[2] = n}) <= MaxIn} :
             \E ws \in [1..K(sh) -> Widths] :
                G = Mk(sh, ws, [n \in 1..K(sh) |-> IF ws[n] = 0 /\ n > sh[1] /\ n <= K(sh) - sh[Layers] THEN 1 ELSE 0], E)
Next == UNCHANGED G
Spec == Init /\ [][Next]_vars

Sink == SinkColoringX2(G, NS)
Adjacent == {<<G.layers[l][j], G.layers[l][j + 1]>> : l \in DOMAIN G.layers, j \in 1..(MaxPer - 1)} \cap ((1..G.k) \X (1..G.k))
AdjPairs == UNION {{<<G.layers[l][j], G.layers[l][j + 1]>> : j \in 1..(Len(G.layers[l]) - 1)} : l \in DOMAIN G.layers}
SinkTerminates == Sink.finished
SinkSeparates == \A p \in AdjPairs : Sink.x[p[1]] + 2 * G.w[p[1]] + 2 * NS <= Sink.x[p[2]]
SinkKeepsOrder == \A p \in AdjPairs : Sink.x[p[1]] <= Sink.x[p[2]]
VX == VAlignX2(G, NS)
PX == PackRightX2(G, NS)
ExactSpacing == \A p \in AdjPairs : /\ VX[p[2]] = VX[p[1]] + 2 * G.w[p[1]] + 2 * NS
                                    /\ PX[p[2]] = PX[p[1]] + 2 * G.w[p[1]] + 2 * NS
First(l) == G.layers[l][1]
Last(l) == G.layers[l][Len(G.layers[l])]
VAlignCentres == \A l1, l2 \in DOMAIN G.layers :
    VX[First(l1)] + VX[Last(l1)] + 2 * G.w[Last(l1)] = VX[First(l2)] + VX[Last(l2)] + 2 * G.w[Last(l2)]
PackRightAligns == /\ \A l1, l2 \in DOMAIN G.layers : PX[Last(l1)] + 2 * G.w[Last(l1)] = PX[Last(l2)] + 2 * G.w[Last(l2)]
                   /\ MinOf({PX[n] : n \in 1..G.k}) = 0
VAlignLeftmostZero == MinOf({VX[n] : n \in 1..G.k}) = 0
Goal_NarrowRightOfWide == ~(\E p \in AdjPairs : G.w[p[1]] > G.w[p[2]] /\ G.w[p[2]] = 0)
=============================================================================
