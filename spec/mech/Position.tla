------------------------------ MODULE Position ------------------------------
(***************************************************************************)
(* LAYER 3 -- exhaustive exploration of the positioners of PositionOps on  *)
(* every proper layered ordered graph of the bound: Layers layers of 1..   *)
(* MaxPer nodes (at most MaxNodes in all), widths from Widths, any set of  *)
(* edges between adjacent layers with at most MaxIn in-edges per node      *)
(* (in-lists in edge order); the zero-width nodes of the inner layers are  *)
(* helper nodes.  Checked for each graph:                                  *)
(*   SinkTerminates   placeBlock reaches a round without shift     (C01)   *)
(*   SinkSeparates    neighbours in a layer are at least width +           *)
(*                    NodeSpacing apart                            (C04)   *)
(*   SinkKeepsOrder   x is non-decreasing along every layer        (C12)   *)
(*   VAlignCentres, PackRightAligns, ExactSpacing                  (C16)   *)
(* Goal predicates: EqualBlockMax (two blocks with the same x),            *)
(* NarrowRightOfWide (the coincidences behind repaired defect D12).        *)
(***************************************************************************)
EXTENDS PositionOps, TLC

CONSTANTS Layers, MaxPer, MaxNodes, Widths, MaxIn, NS,
          Tall,     \* FALSE: every node has height 0 (the x-coordinate invariants do not read heights); TRUE: height = width \div 3 + 1
                    \* for nodes of positive width, so that wider nodes are taller (used by the spline-corridor invariants)
          LS        \* LayerSpacing

VARIABLES G,
          ready     \* FALSE in the initial states, TRUE after the one step: the invariants are evaluated on the successor states,
                    \* i.e. by TLC's worker threads and not by the single thread that enumerates the initial states
vars == <<G, ready>>

\* node numbering: layer by layer, left to right
Shapes == [1..Layers -> 1..MaxPer]
Start(sh, l) == SumTo([m \in 1..(l - 1) |-> sh[m]], l - 1)
NodesOfLayer(sh, l) == [j \in 1..sh[l] |-> Start(sh, l) + j]
K(sh) == Start(sh, Layers + 1)
PairsBetween(sh, l) == {<<u, v>> : u \in {Start(sh, l) + j : j \in 1..sh[l]}, v \in {Start(sh, l + 1) + j : j \in 1..sh[l + 1]}}
AllPairs(sh) == UNION {PairsBetween(sh, l) : l \in 1..(Layers - 1)}
\* edge list = the chosen pairs in lexicographic order
RECURSIVE SeqOfPairs(_)
SeqOfPairs(S) == IF S = {} THEN <<>>
                 ELSE LET m == CHOOSE p \in S : \A q \in S : p[1] < q[1] \/ (p[1] = q[1] /\ p[2] <= q[2])
                      IN <<m>> \o SeqOfPairs(S \ {m})
Mk(sh, ws, vs, E) ==
    LET es == SeqOfPairs(E) k == K(sh) IN
    [k |-> k, w |-> ws, h |-> [n \in 1..k |-> IF Tall /\ ws[n] > 0 THEN ws[n] \div 3 + 1 ELSE 0], virt |-> vs,
     layer |-> [n \in 1..k |-> (CHOOSE l \in 1..Layers : Start(sh, l) < n /\ n <= Start(sh, l) + sh[l]) - 1],
     pos |-> [n \in 1..k |-> n - Start(sh, CHOOSE l \in 1..Layers : Start(sh, l) < n /\ n <= Start(sh, l) + sh[l]) - 1],
     ef |-> [i \in DOMAIN es |-> es[i][1]], et |-> [i \in DOMAIN es |-> es[i][2]],
     inl |-> [n \in 1..k |-> SelectSeq([i \in DOMAIN es |-> i], LAMBDA i : es[i][2] = n)],
     outl |-> [n \in 1..k |-> SelectSeq([i \in DOMAIN es |-> i], LAMBDA i : es[i][1] = n)],
     layers |-> [l \in 1..Layers |-> NodesOfLayer(sh, l)]]
\* helper nodes: the zero-width nodes of the inner layers
Init == ready = FALSE /\ \E sh \in {s \in Shapes : K(s) <= MaxNodes} :
          \E E \in {F \in SUBSET AllPairs(sh) : \A n \in 1..K(sh) : Cardinality({p \in F : p[2] = n}) <= MaxIn} :
             \E ws \in [1..K(sh) -> Widths] :
                G = Mk(sh, ws, [n \in 1..K(sh) |-> IF ws[n] = 0 /\ n > sh[1] /\ n <= K(sh) - sh[Layers] THEN 1 ELSE 0], E)
Next == ~ready /\ ready' = TRUE /\ UNCHANGED G
Spec == Init /\ [][Next]_vars

Sink == SinkColoringX2(G, NS)
Adjacent == {<<G.layers[l][j], G.layers[l][j + 1]>> : l \in DOMAIN G.layers, j \in 1..(MaxPer - 1)} \cap ((1..G.k) \X (1..G.k))
AdjPairs == UNION {{<<G.layers[l][j], G.layers[l][j + 1]>> : j \in 1..(Len(G.layers[l]) - 1)} : l \in DOMAIN G.layers}
SinkTerminates == ready => Sink.finished
SinkSeparates == ready => \A p \in AdjPairs : Sink.x[p[1]] + 2 * G.w[p[1]] + 2 * NS <= Sink.x[p[2]]
SinkKeepsOrder == ready => \A p \in AdjPairs : Sink.x[p[1]] <= Sink.x[p[2]]
VX == VAlignX2(G, NS)
PX == PackRightX2(G, NS)
ExactSpacing == ready => \A p \in AdjPairs : /\ VX[p[2]] = VX[p[1]] + 2 * G.w[p[1]] + 2 * NS
                                             /\ PX[p[2]] = PX[p[1]] + 2 * G.w[p[1]] + 2 * NS
First(l) == G.layers[l][1]
Last(l) == G.layers[l][Len(G.layers[l])]
VAlignCentres == ready => \A l1, l2 \in DOMAIN G.layers :
    VX[First(l1)] + VX[Last(l1)] + 2 * G.w[Last(l1)] = VX[First(l2)] + VX[Last(l2)] + 2 * G.w[Last(l2)]
PackRightAligns == ready => /\ \A l1, l2 \in DOMAIN G.layers : PX[Last(l1)] + 2 * G.w[Last(l1)] = PX[Last(l2)] + 2 * G.w[Last(l2)]
                            /\ MinOf({PX[n] : n \in 1..G.k}) = 0
VAlignLeftmostZero == ready => MinOf({VX[n] : n \in 1..G.k}) = 0
\* ---- the network-simplex positioner (NSPositionOps) on the same graphs; widths and NS in whole units (U = 1)
NP == INSTANCE NSPositionOps WITH ACCUMULATE <- FALSE, RESET_TREE <- TRUE
NPA == NP!AuxGraph(G, NS, 4, 1)
NPB == NP!RunToBalance(NPA.es, NPA.NN, NP!InitState(NPA.es, NPA.NN), 28 * G.k, 600)     \* on entering the balancing phase
NPD == NP!HBalanceStep(NPA.es, NPA.NN, NPB)
NPX == NP!XFromRanks(G, NPD.rank, 1)
\* the pipeline positions one connected component at a time (on a disconnected graph the auxiliary graph can be disconnected too,
\* and the real code then panics in incidentNonTreeEdge, like the model); NSConn makes every NSPos invariant conditional on that
RECURSIVE UReach(_)
UReach(S) == LET T == S \cup {G.et[i] : i \in {j \in DOMAIN G.ef : G.ef[j] \in S}} \cup {G.ef[i] : i \in {j \in DOMAIN G.ef : G.et[j] \in S}}
             IN IF T = S THEN S ELSE UReach(T)
NSConn == UReach({1}) = 1..G.k
NSPosFinishes == (ready /\ NSConn) => NPB.phase = "balance" /\ ~NPB.stuck /\ ~NPB.capped
NSPosTreeRight == (ready /\ NSConn) => NP!IsSpanningTree(NPA.es, NPA.NN, NPB.tree) /\ \A e \in NPB.tree : NP!Slack(NPA.es, e, NPB.rank) = 0 /\ NPB.cut[e] >= 0
NSPosFeasible == (ready /\ NSConn) => NP!Feasible(NPA.es, NPB.rank) /\ NP!Feasible(NPA.es, NPD.rank)
NSPosBalanceKeepsObjective == (ready /\ NSConn) => NP!TotalLen(NPA.es, NPD.rank) = NP!TotalLen(NPA.es, NPB.rank)
\* neighbours keep their order and their centres are at least round(w/2 + w'/2 + NS) apart: at most half a unit of overlap
NSPosSeparates == (ready /\ NSConn) => \A p \in AdjPairs : NPX[p[1]] + 2 * G.w[p[1]] + 2 * NS - 1 <= NPX[p[2]]
NSPosSeparatesExactly == (ready /\ NSConn) => \A p \in AdjPairs : (G.w[p[1]] + G.w[p[2]]) % 2 = 0 => NPX[p[1]] + 2 * G.w[p[1]] + 2 * NS <= NPX[p[2]]
NSPosLeftmostZero == (ready /\ NSConn) => MinOf({NPX[n] : n \in 1..G.k}) = 0
\* an edge between two nodes that are alone in their layers is drawn vertically (centres coincide)
Alone(n) == Len(G.layers[G.layer[n] + 1]) = 1
NSPosStraightensChains == (ready /\ NSConn /\ \A n \in 1..G.k : Alone(n)) => \A i \in DOMAIN G.ef : NPX[G.ef[i]] + G.w[G.ef[i]] = NPX[G.et[i]] + G.w[G.et[i]]
Goal_NSPosBalanceMoves == (ready /\ NSConn) => NPD.rank = NP!Normalize(NPA.NN, NPB.rank)
\* ---- the Brandes-Koepf positioner (BKOps) on the same graphs
BK == INSTANCE BKOps
BKM == BK!Marked(G)
BKA(i) == BK!VerticalAlign(G, BKM, BK!Dirs[i][1], BK!Dirs[i][2])
BKX == BK!FourLayouts(G, NS)
BKF == BK!BKX2(G, NS, -1)
\* the members of the block of root r, following the alignment pointers
RECURSIVE BKChain(_, _, _)
BKChain(A, r, w) == IF A.align[w] = r THEN <<w>> ELSE <<w>> \o BKChain(A, r, A.align[w])
\* every block is a vertical chain: one node per layer, consecutive layers, joined by edges of the graph, and root[] names its first node
BKBlocksAreChains == ready => \A i \in 1..4 : LET A == BKA(i) IN
    \A r \in {n \in 1..G.k : A.root[n] = n} :
        LET ch == BKChain(A, r, r)
            step == IF BK!Dirs[i][1] = "bottom" THEN 1 ELSE -1
        IN /\ \A j \in DOMAIN ch : A.root[ch[j]] = r
           /\ \A j \in 1..(Len(ch) - 1) : /\ G.layer[ch[j + 1]] = G.layer[ch[j]] + step
                                          /\ \E e \in DOMAIN G.ef : {G.ef[e], G.et[e]} = {ch[j], ch[j + 1]}
BKEveryNodeInOneBlock == ready => \A i \in 1..4 : LET A == BKA(i) IN
    \A n \in 1..G.k : LET ch == BKChain(A, A.root[n], A.root[n]) IN \E j \in DOMAIN ch : ch[j] = n
\* aligned segments between the same two layers never cross, and never run along a marked (conflicting) edge
BKSegs(A) == {<<n, A.align[n]>> : n \in {m \in 1..G.k : A.align[m] # A.root[m]}}
BKAlignmentsDoNotCross == ready => \A i \in 1..4 : LET S == BKSegs(BKA(i)) IN \A s1, s2 \in S :
    (G.layer[s1[1]] = G.layer[s2[1]] /\ G.pos[s1[1]] < G.pos[s2[1]]) => G.pos[s1[2]] < G.pos[s2[2]]
\* with equal widths the classic guarantee holds: in each of the four layouts and in the final one neighbours are width + NS apart
BKUniform == \A n, m \in 1..G.k : G.w[n] = G.w[m]
BKUniformSeparated == (ready /\ BKUniform) => LET X == BKX  F == BKF IN
    /\ \A i \in 1..4 : \A p \in AdjPairs : X[i][p[1]] + G.w[p[1]] + NS <= X[i][p[2]]
    /\ \A p \in AdjPairs : F[p[1]] + 2 * G.w[p[1]] + 2 * NS <= F[p[2]]
BKNonNegative == ready => LET F == BKF IN \A n \in 1..G.k : F[n] >= 0
\* the final adjustment leaves no node starting inside its left neighbour
BKNoStartInsideNeighbour == ready => LET F == BKF IN \A p \in AdjPairs : ~(F[p[2]] > F[p[1]] /\ F[p[2]] < F[p[1]] + 2 * G.w[p[1]])
\* goal predicates: what the documentation warns about (sizes are ignored: overlaps and order inversions are reachable)
Goal_BKOverlap == ready => LET F == BKF IN \A p \in AdjPairs : F[p[1]] + 2 * G.w[p[1]] <= F[p[2]]
Goal_BKMarksSomething == ready => BKM = {}
Goal_BKFallback == ready => BK!Verify(G, BK!Balance2(G, BKX), 2, NS)
\* ---- the spline router's corridors (RouteOps!BuildRects6) on the same graphs, positioned by VAlign / PackRight / SinkColoring:
\* when no rectangle can be degenerate by construction (positive spacings, real nodes of positive size) every corridor must
\* satisfy what geom.Shortest requires (CorridorOps!WellFormed + end points inside the first / last rectangle)
RO == INSTANCE RouteOps
\* helper nodes as phase 3 makes them: exactly one edge in and one edge out
HelpersProper == \A n \in 1..G.k : G.virt[n] = 1 =>
    Cardinality({i \in DOMAIN G.ef : G.et[i] = n}) = 1 /\ Cardinality({i \in DOMAIN G.ef : G.ef[i] = n}) = 1
NonDegenerate == NS > 0 /\ LS > 0 /\ \A n \in 1..G.k : G.virt[n] = 0 => (G.w[n] > 0 /\ G.h[n] > 0)
\* everything doubled (the positioners return half units); rectangles come out in twelfths
RG(x2) == [x |-> x2, y |-> [n \in 1..G.k |-> 2 * YOfLayer(G, LS, G.layer[n] + 1)],
           w |-> [n \in 1..G.k |-> 2 * G.w[n]], h |-> [n \in 1..G.k |-> 2 * G.h[n]],
           virt |-> G.virt, layer |-> G.layer, pos |-> G.pos, layers |-> G.layers, ef |-> G.ef, et |-> G.et,
           lh |-> [l \in DOMAIN G.layers |-> 2 * LayerH(G, l)]]
HeadEdges == {e \in DOMAIN G.ef : G.virt[G.ef[e]] = 0}
CorridorsOK(x2) == LET R == RG(x2) IN \A e \in HeadEdges : RO!SplineInputOK(R, RO!RouteNodes(R, e), 20)
\* both layerers leave no layer without a real node (such a layer could be removed: the layering would not be minimal);
\* rectVirtualNode relies on it ("a layer cannot contain only one virtual node") and indexes out of range otherwise
LayersPopulated == \A l \in DOMAIN G.layers : \E j \in DOMAIN G.layers[l] : G.virt[G.layers[l][j]] = 0
\* the real nodes of a layer are equally tall (the corridor code takes band heights from whichever node is at hand)
UniformBands == \A l \in DOMAIN G.layers : \A i, j \in DOMAIN G.layers[l] :
    (G.virt[G.layers[l][i]] = 0 /\ G.virt[G.layers[l][j]] = 0) => G.h[G.layers[l][i]] = G.h[G.layers[l][j]]
\* the neighbours from which rectVirtualNode takes the band's vertical extent are real nodes (a helper node has height 0)
HelperNeighboursReal == \A l \in DOMAIN G.layers : \A j \in 1..(Len(G.layers[l]) - 1) :
    ~(G.virt[G.layers[l][j]] = 1 /\ G.virt[G.layers[l][j + 1]] = 1)
\* Outside these preconditions TLC finds malformed corridors at once (start point above the first rectangle when the source
\* node is shorter than its layer; a rectangle of height 0 next to two adjacent helper nodes; an index out of range in a
\* layer that holds only a helper node): geom.Shortest is then used outside the contract of C19 (DESIGN.md, section 14, D11)
SplineCorridorsOK == (ready /\ HelpersProper /\ NonDegenerate /\ LayersPopulated /\ UniformBands /\ HelperNeighboursReal) =>
    /\ CorridorsOK(VAlignX2(G, NS)) /\ CorridorsOK(PackRightX2(G, NS))
    /\ LET S == SinkColoringX2(G, NS) IN S.finished => CorridorsOK(S.x)
Goal_NarrowRightOfWide == ~(ready /\ \E p \in AdjPairs : G.w[p[1]] > G.w[p[2]] /\ G.w[p[2]] = 0)
=============================================================================
