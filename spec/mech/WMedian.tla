------------------------------ MODULE WMedian -------------------------------
(***************************************************************************)
(* LAYER 3 -- exhaustive exploration of the ordering phase on              *)
(*  (a) every rooted tree with at most NT nodes (parent functions with     *)
(*      parent[i] < i), edges pointing away from or toward the root, every *)
(*      order of the edge list (node order = first appearance), layered by *)
(*      depth: the design argument of property C13 - the depth-first       *)
(*      initial order of a tree has no crossing, and an order is only ever *)
(*      replaced by a strictly better one;                                 *)
(*  (b) every proper two- and three-layer graph of the bound: the result   *)
(*      is a permutation of every layer, the reported crossing number is   *)
(*      the crossing number of the returned order (C12) and is not worse   *)
(*      than that of the initial order.                                    *)
(***************************************************************************)
EXTENDS WMedianOps, TLC

CONSTANTS Family, NT, MaxPer, MaxEdges

VARIABLE G
vars == <<G>>

\* ---- (a) trees
ParentFns == {p \in [2..NT -> 1..(NT - 1)] : \A i \in 2..NT : p[i] < i}
RECURSIVE Depth(_, _)
Depth(p, i) == IF i = 1 THEN 0 ELSE 1 + Depth(p, p[i])
RECURSIVE FirstSeen(_, _, _)
FirstSeen(es, k, acc) ==
    IF k > Len(es) THEN acc
    ELSE LET a1 == IF \E j \in DOMAIN acc : acc[j] = es[k][1] THEN acc ELSE Append(acc, es[k][1])
             a2 == IF \E j \in DOMAIN a1 : a1[j] = es[k][2] THEN a1 ELSE Append(a1, es[k][2])
         IN FirstSeen(es, k + 1, a2)
TreeGraph(p, dir, perm) ==
    LET raw == [k \in 1..(NT - 1) |-> IF dir = "out" THEN <<p[perm[k] + 1], perm[k] + 1>> ELSE <<perm[k] + 1, p[perm[k] + 1]>>]
        ord == FirstSeen(raw, 1, <<>>)                       \* g.Nodes order
        idx(x) == CHOOSE j \in DOMAIN ord : ord[j] = x
        es == [k \in DOMAIN raw |-> <<idx(raw[k][1]), idx(raw[k][2])>>]
        maxd == CHOOSE d \in 0..NT : (\E i \in 1..NT : Depth(p, i) = d) /\ \A i \in 1..NT : Depth(p, i) <= d
    IN [k |-> NT, nl |-> maxd + 1,
        layer |-> [n \in 1..NT |-> IF dir = "out" THEN Depth(p, ord[n]) ELSE maxd - Depth(p, ord[n])],
        ef |-> [i \in DOMAIN es |-> es[i][1]], et |-> [i \in DOMAIN es |-> es[i][2]],
        inl |-> [n \in 1..NT |-> SelectSeq([i \in DOMAIN es |-> i], LAMBDA i : es[i][2] = n)],
        outl |-> [n \in 1..NT |-> SelectSeq([i \in DOMAIN es |-> i], LAMBDA i : es[i][1] = n)]]
Trees == {TreeGraph(p, d, perm) : p \in ParentFns, d \in {"out", "in"}, perm \in Permutations(1..(NT - 1))}

\* ---- (b) small proper layered graphs: 3 layers of 1..MaxPer nodes, up to MaxEdges edges between adjacent layers
Shapes == [1..3 -> 1..MaxPer]
StartOf(sh, l) == IF l = 1 THEN 0 ELSE IF l = 2 THEN sh[1] ELSE sh[1] + sh[2]
PairsOf(sh) == {<<u, v>> \in (1..(sh[1] + sh[2] + sh[3])) \X (1..(sh[1] + sh[2] + sh[3])) :
                  \E l \in 1..2 : StartOf(sh, l) < u /\ u <= StartOf(sh, l) + sh[l] /\ StartOf(sh, l + 1) < v /\ v <= StartOf(sh, l + 1) + sh[l + 1]}
RECURSIVE SeqOfPairs(_)
SeqOfPairs(S) == IF S = {} THEN <<>>
                 ELSE LET m == CHOOSE p \in S : \A q \in S : p[1] < q[1] \/ (p[1] = q[1] /\ p[2] <= q[2]) IN <<m>> \o SeqOfPairs(S \ {m})
LayeredGraph(sh, E) ==
    LET es == SeqOfPairs(E) k == sh[1] + sh[2] + sh[3] IN
    [k |-> k, nl |-> 3,
     layer |-> [n \in 1..k |-> IF n <= sh[1] THEN 0 ELSE IF n <= sh[1] + sh[2] THEN 1 ELSE 2],
     ef |-> [i \in DOMAIN es |-> es[i][1]], et |-> [i \in DOMAIN es |-> es[i][2]],
     inl |-> [n \in 1..k |-> SelectSeq([i \in DOMAIN es |-> i], LAMBDA i : es[i][2] = n)],
     outl |-> [n \in 1..k |-> SelectSeq([i \in DOMAIN es |-> i], LAMBDA i : es[i][1] = n)]]
LayeredInit == \E sh \in Shapes : \E E \in {F \in SUBSET PairsOf(sh) : Cardinality(F) <= MaxEdges /\ Cardinality(F) >= 1} : G = LayeredGraph(sh, E)

Init == IF Family = "trees" THEN G \in Trees ELSE LayeredInit
Next == UNCHANGED G
Spec == Init /\ [][Next]_vars

Zero == [n \in 1..G.k |-> 0]
R == WMedian(G, Zero, 24)
TreePlanar == Family = "trees" => Crossings(G, R.pos) = 0 /\ R.crossings = 0
PermutationPerLayer == \A l \in 0..(G.nl - 1) : {R.pos[n] : n \in LayerSet(G, l)} = 0..(Cardinality(LayerSet(G, l)) - 1)
ReportedIsActual == R.crossings = Crossings(G, R.pos)
NotWorseThanInitial == R.crossings <= Crossings(G, InitPositions(G, Zero, TRUE))
=============================================================================
