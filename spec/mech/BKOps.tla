------------------------------- MODULE BKOps --------------------------------
(***************************************************************************)
(* LAYER 3 -- the Brandes-Koepf positioner (internal/phase4/               *)
(* brandes_koepf.go) transcribed statement by statement as pure operators: *)
(* initNeighbors, markConflicts, the four runs of verticalAlign +          *)
(* horizontalCompaction (placeBlock, the class-shift pass), balanceLayouts *)
(* / a forced layout, verifyLayout and the fall-back choice, the left      *)
(* margin and the final overlap adjustment.                                *)
(*                                                                         *)
(* Input: the positioned-graph record of PositionOps plus G.outl (n.Out).  *)
(* Layers and in-layer positions are 0-based like in the Go code           *)
(* (G.layer, G.pos); G.layers[l + 1] is layer l.  Widths and NodeSpacing   *)
(* are integers; the result is in HALF units (doubled), because the        *)
(* balanced layout halves once: (xs[1] + xs[2]) / 2.                       *)
(* The infinite initial class shifts (math.Inf(+-1)) are modelled by a     *)
(* flag: xsi[n] = TRUE while the shift of class n is still infinite.       *)
(* Go's map iterations in this file only compute minima and maxima, so     *)
(* their order is irrelevant and sets are used.                            *)
(***************************************************************************)
EXTENDS Integers, Sequences, FiniteSets

BMax(S) == CHOOSE x \in S : \A y \in S : y <= x
BMin(S) == CHOOSE x \in S : \A y \in S : x <= y
Max2(a, b) == IF a > b THEN a ELSE b
Min2(a, b) == IF a < b THEN a ELSE b
Rev(q) == [i \in 1..Len(q) |-> q[Len(q) - i + 1]]

NLy(G) == Len(G.layers)
LSeq(G, l) == G.layers[l + 1]
LLen(G, l) == Len(G.layers[l + 1])
NodeAt(G, l, p) == G.layers[l + 1][p + 1]
Proper(G, e) == G.ef[e] # G.et[e] /\ G.layer[G.ef[e]] # G.layer[G.et[e]]          \* neither a self-loop nor flat
\* initNeighbors: the edges to the upper neighbours (n.In order) and to the lower neighbours (n.Out order)
UpE(G, n) == IF G.layer[n] > 0 THEN SelectSeq(G.inl[n], LAMBDA e : Proper(G, e)) ELSE <<>>
DownE(G, n) == IF G.layer[n] < NLy(G) - 1 THEN SelectSeq(G.outl[n], LAMBDA e : Proper(G, e)) ELSE <<>>
NbE(G, n, v) == IF v = "bottom" THEN UpE(G, n) ELSE DownE(G, n)
NbNode(G, e, v) == IF v = "bottom" THEN G.ef[e] ELSE G.et[e]

\* ---- markConflicts
Inner(G, v) ==
    IF G.virt[v] = 0 THEN -1
    ELSE LET c == {i \in DOMAIN G.inl[v] : G.virt[G.ef[G.inl[v][i]]] = 1 /\ G.layer[G.ef[G.inl[v][i]]] = G.layer[v] - 1}
         IN IF c = {} THEN -1 ELSE G.pos[G.ef[G.inl[v][BMin(c)]]]
RECURSIVE MarkL1(_, _, _, _, _)
MarkL1(G, i, l1, k0, M) ==
    IF l1 >= LLen(G, i + 1) THEN M
    ELSE LET v == NodeAt(G, i + 1, l1)
             ksrc == Inner(G, v)
         IN IF l1 = LLen(G, i + 1) - 1 \/ ksrc >= 0
            THEN LET k1 == IF ksrc >= 0 THEN G.pos[G.ef[UpE(G, v)[1]]] ELSE LLen(G, i) - 1
                     ws == {NodeAt(G, i + 1, l2) : l2 \in 0..l1}
                     new == UNION {{G.inl[w][k] : k \in {j \in DOMAIN G.inl[w] :
                                        LET e == G.inl[w][j] IN Proper(G, e) /\ (G.pos[G.ef[e]] < k0 \/ G.pos[G.ef[e]] > k1)}} : w \in ws}
                 IN MarkL1(G, i, l1 + 1, k1, M \cup new)
            ELSE MarkL1(G, i, l1 + 1, k0, M)
Marked(G) == IF NLy(G) < 4 THEN {} ELSE UNION {MarkL1(G, i, 0, 0, {}) : i \in 1..(NLy(G) - 2)}

\* ---- verticalAlign; A = [root, align]; the sweep state adds r
LayerOrder(G, v) == IF v = "bottom" THEN [i \in 1..NLy(G) |-> i - 1] ELSE [i \in 1..NLy(G) |-> NLy(G) - i]
NodeOrder(q, h) == IF h = "right" THEN q ELSE Rev(q)
MedIdx(d, h) == LET m1 == (d + 1) \div 2  m2 == (d + 2) \div 2 IN IF h = "right" THEN <<m1, m2>> ELSE <<m2, m1>>
Within(r, p, h) == IF h = "right" THEN r < p ELSE r > p
R0(h) == IF h = "right" THEN -1 ELSE 1000000
TryAlign(G, M, vk, v, h, nb, m, S) ==
    IF S.align[vk] # vk THEN S
    ELSE LET e == nb[m]  u == NbNode(G, e, v)
         IN IF e \notin M /\ Within(S.r, G.pos[u], h)
            THEN [root |-> [S.root EXCEPT ![vk] = S.root[u]], align |-> [S.align EXCEPT ![u] = vk, ![vk] = S.root[u]], r |-> G.pos[u]]
            ELSE S
AlignNode(G, M, vk, v, h, S) ==
    LET nb == NbE(G, vk, v)  d == Len(nb)
    IN IF d = 0 THEN S ELSE TryAlign(G, M, vk, v, h, nb, MedIdx(d, h)[2], TryAlign(G, M, vk, v, h, nb, MedIdx(d, h)[1], S))
RECURSIVE AlignNodes(_, _, _, _, _, _), AlignLayers(_, _, _, _, _, _)
AlignNodes(G, M, q, v, h, S) == IF q = <<>> THEN S ELSE AlignNodes(G, M, Tail(q), v, h, AlignNode(G, M, Head(q), v, h, S))
AlignLayers(G, M, ls, v, h, A) ==
    IF ls = <<>> THEN A
    ELSE LET S == AlignNodes(G, M, NodeOrder(LSeq(G, Head(ls)), h), v, h, [root |-> A.root, align |-> A.align, r |-> R0(h)])
         IN AlignLayers(G, M, Tail(ls), v, h, [root |-> S.root, align |-> S.align])
VerticalAlign(G, M, v, h) == AlignLayers(G, M, LayerOrder(G, v), v, h, [root |-> [n \in 1..G.k |-> n], align |-> [n \in 1..G.k |-> n]])

\* ---- horizontalCompaction; C = [sinks, xsi, xsv, x, init]
IsFirst(G, n, h) == IF h = "right" THEN G.pos[n] = 0 ELSE G.pos[n] = LLen(G, G.layer[n]) - 1
IsLast(G, n, h)  == IF h = "right" THEN G.pos[n] = LLen(G, G.layer[n]) - 1 ELSE G.pos[n] = 0
NextIn(G, n, h) == IF h = "right" THEN NodeAt(G, G.layer[n], G.pos[n] + 1) ELSE NodeAt(G, G.layer[n], G.pos[n] - 1)
PrevIn(G, n, h) == IF h = "right" THEN NodeAt(G, G.layer[n], G.pos[n] - 1) ELSE NodeAt(G, G.layer[n], G.pos[n] + 1)
RECURSIVE PlaceBlock(_, _, _, _, _, _), BlockWalk(_, _, _, _, _, _, _), Spread(_, _, _, _)
PlaceBlock(G, A, h, ns, v, C) ==
    IF C.init[v] THEN C
    ELSE Spread(A, v, v, BlockWalk(G, A, h, ns, v, v, [C EXCEPT !.init[v] = TRUE, !.x[v] = 0]))
BlockWalk(G, A, h, ns, v, w, C) ==
    LET C1 == IF IsLast(G, w, h) THEN C
              ELSE LET u == NextIn(G, w, h)
                       ur == A.root[u]
                       Ca == PlaceBlock(G, A, h, ns, ur, C)
                       Cb == IF Ca.sinks[v] = v THEN [Ca EXCEPT !.sinks[v] = Ca.sinks[ur]] ELSE Ca
                   IN IF Cb.sinks[v] = Cb.sinks[ur]
                      THEN IF h = "left" THEN [Cb EXCEPT !.x[v] = Max2(@, Cb.x[ur] + G.w[u] + ns)]
                           ELSE [Cb EXCEPT !.x[v] = Min2(@, Cb.x[ur] - (G.w[v] + ns))]
                      ELSE Cb
        w2 == A.align[w]
    IN IF w2 = v THEN C1 ELSE BlockWalk(G, A, h, ns, v, w2, C1)
Spread(A, v, w, C) == IF A.align[w] = v THEN C
                      ELSE LET w2 == A.align[w] IN Spread(A, v, w2, [C EXCEPT !.x[w2] = C.x[v], !.sinks[w2] = C.sinks[v]])
RECURSIVE PlaceNodes(_, _, _, _, _, _), PlaceLayers(_, _, _, _, _, _)
PlaceNodes(G, A, h, ns, q, C) == IF q = <<>> THEN C
    ELSE PlaceNodes(G, A, h, ns, Tail(q), IF A.root[Head(q)] = Head(q) THEN PlaceBlock(G, A, h, ns, Head(q), C) ELSE C)
PlaceLayers(G, A, h, ns, ls, C) == IF ls = <<>> THEN C
    ELSE PlaceLayers(G, A, h, ns, Tail(ls), PlaceNodes(G, A, h, ns, NodeOrder(LSeq(G, Head(ls)), h), C))
\* the class-shift pass
ShiftUpdate(G, h, ns, v, u, C) ==
    LET sv == C.sinks[v]  su == C.sinks[u]
        s == IF h = "left" THEN C.xsv[sv] + C.x[v] + (C.x[u] + G.w[u] + ns) ELSE C.xsv[sv] + C.x[v] - (C.x[u] + ns)
    IN IF C.xsi[sv] THEN C                                            \* s is infinite: max / min leaves the class shift as it is
       ELSE IF C.xsi[su] THEN [C EXCEPT !.xsi[su] = FALSE, !.xsv[su] = s]
       ELSE [C EXCEPT !.xsv[su] = IF h = "left" THEN Max2(@, s) ELSE Min2(@, s)]
RECURSIVE ClassInner(_, _, _, _, _, _, _), ClassOuter(_, _, _, _, _, _, _)
\* the walk along a block; returns [v, j, C]
ClassInner(G, A, h, ns, v, j, C) ==
    IF A.align[v] = A.root[v] THEN [v |-> v, j |-> j, C |-> C]
    ELSE LET v2 == A.align[v]
             C2 == IF IsFirst(G, v2, h) THEN C ELSE ShiftUpdate(G, h, ns, v2, PrevIn(G, v2, h), C)
         IN ClassInner(G, A, h, ns, v2, j + 1, C2)
ClassOuter(G, A, h, ns, j, k, C) ==
    IF ~(j < NLy(G)) THEN C
    ELSE IF ~(k < LLen(G, j)) THEN C
    ELSE LET R == ClassInner(G, A, h, ns, NodeAt(G, j, k), j, C)
         IN ClassOuter(G, A, h, ns, R.j, G.pos[R.v] + 1, R.C)
ClassLayer(G, A, h, ns, l, C) ==
    LET q == LSeq(G, l)
        n == IF h = "right" THEN q[1] ELSE q[Len(q)]
    IN IF C.sinks[n] # n THEN C
       ELSE ClassOuter(G, A, h, ns, l, 0, IF C.xsi[n] THEN [C EXCEPT !.xsi[n] = FALSE, !.xsv[n] = 0] ELSE C)
RECURSIVE ClassLayers(_, _, _, _, _, _)
ClassLayers(G, A, h, ns, ls, C) == IF ls = <<>> THEN C ELSE ClassLayers(G, A, h, ns, Tail(ls), ClassLayer(G, A, h, ns, Head(ls), C))
Compact(G, A, v, h, ns) ==
    LET C0 == [sinks |-> [n \in 1..G.k |-> n], xsi |-> [n \in 1..G.k |-> TRUE], xsv |-> [n \in 1..G.k |-> 0],
               x |-> [n \in 1..G.k |-> 0], init |-> [n \in 1..G.k |-> FALSE]]
        C1 == PlaceLayers(G, A, h, ns, LayerOrder(G, v), C0)
        C2 == ClassLayers(G, A, h, ns, LayerOrder(G, v), C1)
    IN [n \in 1..G.k |-> IF C2.xsi[C2.sinks[n]] THEN C2.x[n] ELSE C2.x[n] + C2.xsv[C2.sinks[n]]]

\* ---- the four layouts, in the order of the Go array: {bottom,right} {bottom,left} {top,right} {top,left}
Dirs == << <<"bottom", "right">>, <<"bottom", "left">>, <<"top", "right">>, <<"top", "left">> >>
OneLayout(G, M, ns, i) == Compact(G, VerticalAlign(G, M, Dirs[i][1], Dirs[i][2]), Dirs[i][1], Dirs[i][2], ns)
FourLayouts(G, ns) == LET M == Marked(G) IN [i \in 1..4 |-> OneLayout(G, M, ns, i)]
SizeOf(G, xc) == LET mn == BMin({xc[n] : n \in 1..G.k})  mx == BMax({xc[n] + G.w[n] : n \in 1..G.k}) IN [w |-> mx - mn, minx |-> mn, maxx |-> mx]
\* balanceLayouts, doubled
Sort4(a, b, c, d) == LET S == <<a, b, c, d>>
                         rank(i) == Cardinality({j \in 1..4 : S[j] < S[i] \/ (S[j] = S[i] /\ j < i)}) + 1
                     IN [r \in 1..4 |-> S[CHOOSE i \in 1..4 : rank(i) = r]]
Balance2(G, X) ==
    LET sz == [i \in 1..4 |-> SizeOf(G, X[i])]
        \* leastWidth: the first layout of strictly smallest width
        lw == BMin({i \in 1..4 : \A j \in 1..4 : sz[i].w <= sz[j].w})
        shift == [i \in 1..4 |-> IF i \in {2, 4} THEN sz[lw].minx - sz[i].minx ELSE sz[lw].maxx - sz[i].maxx]
    IN [n \in 1..G.k |-> LET s == Sort4(X[1][n] + shift[1], X[2][n] + shift[2], X[3][n] + shift[3], X[4][n] + shift[4]) IN s[2] + s[3]]
\* verifyLayout on a layout in units `u` per coordinate unit (1 for the single layouts, 2 for the balanced one)
RECURSIVE VerifyLayer(_, _, _, _, _, _, _)
VerifyLayer(G, xc, u, ns, q, first, pos) ==
    IF q = <<>> THEN TRUE
    ELSE LET n == Head(q)  lft == xc[n]  rgt == xc[n] + u * (G.w[n] + ns)
         IN IF first \/ (lft > pos /\ rgt > pos) THEN VerifyLayer(G, xc, u, ns, Tail(q), FALSE, rgt) ELSE FALSE
Verify(G, xc, u, ns) == \A l \in DOMAIN G.layers : VerifyLayer(G, xc, u, ns, G.layers[l], TRUE, 0)
\* the choice of the final layout, doubled; forced \in 0..3 or -1
RECURSIVE Fallback(_, _, _, _, _, _)
Fallback(G, X, ns, i, smallest2, cur) ==
    IF i > 4 THEN cur
    ELSE IF Verify(G, X[i], 1, ns) /\ 2 * SizeOf(G, X[i]).w < smallest2
         THEN Fallback(G, X, ns, i + 1, 2 * SizeOf(G, X[i]).w, [n \in 1..G.k |-> 2 * X[i][n]])
         ELSE Fallback(G, X, ns, i + 1, smallest2, cur)
\* Size() of the balanced layout, doubled: max(x + n.W) - min(x)
Size2(G, x2) == BMax({x2[n] + 2 * G.w[n] : n \in 1..G.k}) - BMin({x2[n] : n \in 1..G.k})
Final2(G, ns, forced) ==
    LET X == FourLayouts(G, ns)
    IN IF forced >= 0 /\ forced < 4 THEN [n \in 1..G.k |-> 2 * X[forced + 1][n]]
       ELSE LET b == Balance2(G, X)
            IN IF Verify(G, b, 2, ns) THEN b ELSE Fallback(G, X, ns, 1, Size2(G, b), b)
\* left margin and the final overlap adjustment (sequential along every layer)
RECURSIVE FixLayer(_, _, _, _, _)
FixLayer(G, ns, q, j, x2) ==
    IF j > Len(q) THEN x2
    ELSE LET v == q[j - 1]  w == q[j]
         IN IF x2[w] > x2[v] /\ x2[w] < x2[v] + 2 * G.w[v]
            THEN FixLayer(G, ns, q, j + 1, [x2 EXCEPT ![w] = x2[v] + 2 * G.w[v] + 2 * ns])
            ELSE FixLayer(G, ns, q, j + 1, x2)
RECURSIVE FixLayers(_, _, _, _)
FixLayers(G, ns, l, x2) == IF l > NLy(G) THEN x2 ELSE FixLayers(G, ns, l + 1, FixLayer(G, ns, G.layers[l], 2, x2))
BKX2(G, ns, forced) ==
    LET f == Final2(G, ns, forced)
        lm == Min2(0, BMin({f[n] : n \in 1..G.k}))
        g == [n \in 1..G.k |-> f[n] - lm]
    IN FixLayers(G, ns, 1, g)
=============================================================================
