---------------------------- MODULE PositionOps -----------------------------
(***************************************************************************)
(* LAYER 3 -- phase 4 (internal/phase4) transcribed as pure operators:     *)
(* the y assignment shared by all positioners, VerticalAlign, PackRight    *)
(* and SinkColoring (setColor / placeBlock).  Input: the layered, ordered, *)
(* proper graph that phase 3 leaves behind,                                *)
(*   G.k                 number of nodes (real and helper), 1..k in        *)
(*                       g.Nodes order                                     *)
(*   G.w, G.h, G.virt, G.layer, G.pos      per node                        *)
(*   G.ef, G.et          per edge position: from / to node                 *)
(*   G.inl[n]            n.In as a sequence of edge positions (list order) *)
(*   G.layers[l]         the nodes of layer l-1 in slice order             *)
(* Sizes and spacings are integers (units of 1/64); x coordinates are      *)
(* computed in HALF units (all results doubled), because both centring     *)
(* formulas halve once: "(maxW - W) / 2" and "(blockwidth - n.W) / 2".     *)
(***************************************************************************)
EXTENDS Integers, Sequences, FiniteSets

MaxOf(S) == CHOOSE x \in S : \A y \in S : y <= x
MinOf(S) == CHOOSE x \in S : \A y \in S : x <= y
Max2(a, b) == IF a > b THEN a ELSE b
RECURSIVE SumTo(_, _)
SumTo(f, n) == IF n = 0 THEN 0 ELSE f[n] + SumTo(f, n - 1)

\* ---- assignYCoords: layers stacked by the height of their tallest node plus LayerSpacing
LayerH(G, l) == IF G.layers[l] = <<>> THEN 0 ELSE MaxOf({G.h[G.layers[l][j]] : j \in DOMAIN G.layers[l]})
YOfLayer(G, ls, l) == SumTo([m \in 1..(l - 1) |-> LayerH(G, m) + ls], l - 1)

\* ---- execVerticalAlign (doubled x)
LayerW(G, ns, l) == LET q == G.layers[l] IN SumTo([j \in DOMAIN q |-> G.w[q[j]]], Len(q)) + (IF Len(q) > 0 THEN (Len(q) - 1) * ns ELSE 0)
VAlignX2(G, ns) ==
    LET maxW == MaxOf({LayerW(G, ns, l) : l \in DOMAIN G.layers} \cup {0})
    IN [n \in 1..G.k |->
          LET l == G.layer[n] + 1  q == G.layers[l]
              j == CHOOSE i \in DOMAIN q : q[i] = n
          IN (maxW - LayerW(G, ns, l)) + 2 * SumTo([i \in 1..(j - 1) |-> G.w[q[i]] + ns], j - 1)]

\* ---- execPackRight (doubled x)
PackRightX2(G, ns) ==
    LET raw == [n \in 1..G.k |->
                  LET q == G.layers[G.layer[n] + 1]
                      j == CHOOSE i \in DOMAIN q : q[i] = n
                  IN -SumTo([i \in 1..(Len(q) - j + 1) |-> G.w[q[Len(q) - i + 1]] + ns], Len(q) - j + 1)]
        left == MinOf({raw[n] : n \in 1..G.k} \cup {0})
    IN [n \in 1..G.k |-> 2 * (raw[n] - left)]

\* ---- execSinkColoring
Conn(G, e, n) == IF G.et[e] # n THEN G.et[e] ELSE G.ef[e]
IsFlat(G, e) == G.layer[G.ef[e]] = G.layer[G.et[e]]
Crosses(G, e, f) ==
    /\ G.layer[G.ef[e]] = G.layer[G.ef[f]] /\ G.layer[G.et[e]] = G.layer[G.et[f]]
    /\ \/ (G.pos[G.ef[e]] < G.pos[G.ef[f]] /\ G.pos[G.et[e]] > G.pos[G.et[f]])
       \/ (G.pos[G.ef[e]] > G.pos[G.ef[f]] /\ G.pos[G.et[e]] < G.pos[G.et[f]])
\* C = [colors, roots, prio]; result [C, root, w]
RECURSIVE SetColor(_, _, _)
SetColor(G, n, C) ==
    IF C.colors[n] # n \/ G.inl[n] = <<>> THEN [C |-> C, root |-> n, w |-> G.w[n]]
    ELSE LET ins == G.inl[n]
             \* the last in-edge coming from a helper node, if any
             vs == {i \in DOMAIN ins : G.virt[Conn(G, ins[i], n)] = 1}
             e0 == IF vs = {} THEN 0 ELSE ins[MaxOf(vs)]
             \* otherwise (or if that edge is flat) the first in-edge that is not flat
             ok(e) == e # 0 /\ G.ef[e] # G.et[e] /\ ~IsFlat(G, e)
             cand == {i \in DOMAIN ins : ok(ins[i])}
             \* the Go loop: e stays if viable; else e = In[0], In[1], ... until viable; i keeps counting from 0
             e == IF ok(e0) THEN e0 ELSE IF cand = {} THEN 0 ELSE ins[MinOf(cand)]
         IN IF e = 0 THEN [C |-> C, root |-> n, w |-> G.w[n]]
            ELSE LET m == Conn(G, e, n) IN
                 IF C.colors[m] # m THEN [C |-> C, root |-> n, w |-> G.w[n]]
                 ELSE IF \E k \in DOMAIN C.prio[G.layer[n] + 1] : Crosses(G, e, C.prio[G.layer[n] + 1][k])
                      THEN [C |-> C, root |-> n, w |-> G.w[n]]
                      ELSE LET C1 == [C EXCEPT !.prio[G.layer[n] + 1] = Append(@, e)]
                               R == SetColor(G, m, C1)
                               C2 == [R.C EXCEPT !.colors[m] = n, !.roots[n] = R.root]
                           IN [C |-> C2, root |-> R.root, w |-> Max2(G.w[n], R.w)]
\* the painting sweep: layers bottom-up, nodes in order; B = [C, bw]
RECURSIVE PaintNodes(_, _, _), PaintLayers(_, _, _)
PaintNodes(G, q, B) ==
    IF q = <<>> THEN B
    ELSE LET R == SetColor(G, Head(q), B.C)
             rt == R.C.roots[Head(q)]
         IN PaintNodes(G, Tail(q), [C |-> R.C, bw |-> [B.bw EXCEPT ![rt] = Max2(@, R.w)]])
PaintLayers(G, l, B) == IF l = 0 THEN B ELSE PaintLayers(G, l - 1, PaintNodes(G, G.layers[l], B))
Paint(G) == PaintLayers(G, Len(G.layers),
                        [C |-> [colors |-> [n \in 1..G.k |-> n], roots |-> [n \in 1..G.k |-> n], prio |-> [l \in DOMAIN G.layers |-> <<>>]],
                         bw |-> [n \in 1..G.k |-> 0]])
\* placeBlock, all x doubled.  S = [x, bmax, shift]
PlaceSweep(G, ns2, roots, bw2, S0) ==
    LET lmax == MaxOf({Len(G.layers[l]) : l \in DOMAIN G.layers})
        nl == Len(G.layers)
        \* steps are numbered k-major, layer-minor, like the two nested loops
        step[t \in 0..(lmax * nl)] ==
            IF t = 0 THEN S0
            ELSE LET S == step[t - 1]
                     k == (t - 1) \div nl             \* 0-based column
                     l == ((t - 1) % nl) + 1
                     q == G.layers[l]
                 IN IF k >= Len(q) THEN S
                    ELSE IF k = Len(q) - 1 /\ k > 0
                    THEN LET prv == q[k] cur == q[k + 1]
                             need == S.x[prv] + bw2[roots[prv]] + ns2
                         IN IF S.x[cur] < need
                            THEN [x |-> [S.x EXCEPT ![cur] = need], shift |-> TRUE,
                                  bmax |-> [S.bmax EXCEPT ![roots[cur]] = Max2(@, need)]]
                            ELSE S
                    ELSE IF k < Len(q) - 1
                    THEN LET cur == q[k + 1] suc == q[k + 2]
                             need == S.x[cur] + bw2[roots[cur]] + ns2
                         IN IF S.x[suc] < need
                            THEN [x |-> [S.x EXCEPT ![suc] = need], shift |-> TRUE,
                                  bmax |-> [S.bmax EXCEPT ![roots[suc]] = Max2(@, need)]]
                            ELSE S
                    ELSE S
    IN step[lmax * nl]
RECURSIVE PlaceBlock(_, _, _, _, _, _)
PlaceBlock(G, ns2, roots, bw2, bmax, fuel) ==
    LET x0 == [n \in 1..G.k |-> bmax[roots[n]] + (bw2[roots[n]] - 2 * G.w[n]) \div 2]
        S == PlaceSweep(G, ns2, roots, bw2, [x |-> x0, bmax |-> bmax, shift |-> FALSE])
    IN IF S.shift /\ fuel > 0 THEN PlaceBlock(G, ns2, roots, bw2, S.bmax, fuel - 1)
       ELSE [x |-> S.x, finished |-> ~S.shift]
SinkColoringX2(G, ns) ==
    LET B == Paint(G)
        roots == B.C.roots
        bw2 == [n \in 1..G.k |-> 2 * B.bw[n]]
        ns2 == 2 * ns
        \* initial packing to the left, per layer
        x0 == [n \in 1..G.k |->
                 LET q == G.layers[G.layer[n] + 1]
                     j == CHOOSE i \in DOMAIN q : q[i] = n
                 IN SumTo([i \in 1..(j - 1) |-> bw2[roots[q[i]]] + ns2], j - 1)]
        bmax == [r \in 1..G.k |-> MaxOf({0} \cup {x0[n] : n \in {m \in 1..G.k : roots[m] = r}})]
    IN PlaceBlock(G, ns2, roots, bw2, bmax, 200)
=============================================================================
