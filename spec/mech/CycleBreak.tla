----------------------------- MODULE CycleBreak -----------------------------
(***************************************************************************)
(* LAYER 3 -- exhaustive exploration of phase 1.  Every connected,         *)
(* loop-free multigraph in canonical form with at most NN nodes and MM     *)
(* edges (parallel and antiparallel edges included, every edge order) is   *)
(* built edge by edge; in every reachable state the result of both         *)
(* breakers is computed by CycleBreakOps and checked:                      *)
(*   ResultAcyclic      the panic site "graph is still cyclic" is          *)
(*                      unreachable                            (C01, C03)  *)
(*   GreedyPlacesAll    the arc diagram ranks every node (the panic site   *)
(*                      "expected maxOutflow > MinInt" is unreachable)     *)
(*   DagUntouched       nothing is reversed on an acyclic input     (C14)  *)
(*   DfsIrredundant     un-reversing any single edge closes a cycle (C14)  *)
(*   ListsStayConsistent  the in/out lists mirror the edges after all the  *)
(*                      in-place surgery of Edge.Reverse            (C02)  *)
(*   OnlyFlips          edges keep their position and end points           *)
(* Goal predicates: TwoAdjacentOutEdgesReversed (the situation of repaired *)
(* defect D4), ParallelPair (D2).                                          *)
(***************************************************************************)
EXTENDS CycleBreakOps, TLC

CONSTANTS NN, MM
VARIABLE pairs
vars == <<pairs>>

NodesOf(s) == IF s = <<>> THEN {} ELSE {s[i][1] : i \in DOMAIN s} \cup {s[i][2] : i \in DOMAIN s}
K == Cardinality(NodesOf(pairs))
Init == pairs = <<>>
AddEdge == /\ Len(pairs) < MM
           /\ \E u, v \in 1..NN :
                 LET k == Cardinality(NodesOf(pairs)) IN
                 /\ u # v
                 /\ IF pairs = <<>> THEN u = 1 /\ v = 2
                    ELSE \/ (u <= k /\ v <= k) \/ (u <= k /\ v = k + 1) \/ (u = k + 1 /\ v <= k)
                 /\ pairs' = Append(pairs, <<u, v>>)
Next == AddEdge
Spec == Init /\ [][Next]_vars

G0 == MkGraph(K, pairs)
Rd == BreakCycles(K, G0, "dfs")
Rg == BreakCycles(K, G0, "greedy")

ResultAcyclic == pairs # <<>> => Acyclic(K, Rd) /\ Acyclic(K, Rg)
GreedyPlacesAll == (pairs # <<>> /\ ~Acyclic(K, PrePass(G0))) => \A n \in 1..K : GreedyRanks(K, PrePass(G0))[n] # 0
DagUntouched == (pairs # <<>> /\ Acyclic(K, G0)) => ReversedSet(Rd) = {} /\ ReversedSet(Rg) = {}
DfsIrredundant == pairs # <<>> => Irredundant(Rd)
ListsStayConsistent == pairs # <<>> => ListsConsistent(K, Rd) /\ ListsConsistent(K, Rg)
OnlyFlips == pairs # <<>> => \A R \in {Rd, Rg} : \A i \in DOMAIN pairs :
                 \/ (R.es[i].f = pairs[i][1] /\ R.es[i].t = pairs[i][2] /\ R.es[i].rev = 0)
                 \/ (R.es[i].f = pairs[i][2] /\ R.es[i].t = pairs[i][1] /\ R.es[i].rev = 1)

Goal_TwoAdjacentOutEdgesReversed ==
    ~(pairs # <<>> /\ \E n \in 1..K : \E k \in 1..(Len(G0.outl[n]) - 1) :
          {G0.outl[n][k], G0.outl[n][k + 1]} \subseteq ReversedSet(Rg))
Goal_ParallelPair == ~(\E i, j \in DOMAIN pairs : i < j /\ pairs[i] = pairs[j])
=============================================================================
