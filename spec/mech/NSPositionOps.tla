--------------------------- MODULE NSPositionOps ----------------------------
(***************************************************************************)
(* LAYER 3 -- the network-simplex positioner (internal/phase4/             *)
(* network_simplex.go) as pure operators: the auxiliary graph of Gansner   *)
(* et al., the run of the phase-2 network simplex on it with per-edge      *)
(* weights and minimum lengths (NetSimplexOps, horizontal balancing), and  *)
(* the translation of its layers into x coordinates.                       *)
(*                                                                         *)
(* Input: the positioned-graph record of PositionOps (G.k, G.w, G.virt,    *)
(* G.layer, G.ef, G.et, G.layers).  Widths and the node spacing are        *)
(* integers in units of 1/U of a coordinate unit (U = 64 for recorded      *)
(* stage states, 1 in the exhaustive model); the layers of the auxiliary   *)
(* graph are whole coordinate units.                                       *)
(*                                                                         *)
(* The auxiliary graph, in the order the Go code builds it:                *)
(*   nodes  1..k              the nodes of g in g.Nodes order              *)
(*          k+1..k+m          one node NEi per edge of g that is neither a *)
(*                            self-loop nor flat, in g.Edges order         *)
(*   edges  2j-1, 2j          NEj -> from, NEj -> to: weight omega*factor, *)
(*                            minimum length 0 (omega = 1, 2, 8 for edges  *)
(*                            with 0, 1, 2 helper end points)              *)
(*          2m+1..            one edge per pair of neighbours in a layer,  *)
(*                            layer by layer: weight 0, minimum length     *)
(*                            round(w(a)/2 + w(b)/2 + NodeSpacing)         *)
(* Every list n.In / n.Out is filled in that same order, so the lists are  *)
(* the edge positions in increasing order.                                 *)
(***************************************************************************)
EXTENDS NetSimplexOps

AuxEdgesOf(G) == SelectSeq([i \in DOMAIN G.ef |-> i], LAMBDA i : G.ef[i] # G.et[i] /\ G.layer[G.ef[i]] # G.layer[G.et[i]])
Omega(G, i) == LET a == G.virt[G.ef[i]] b == G.virt[G.et[i]] IN IF a = 0 /\ b = 0 THEN 1 ELSE IF a # b THEN 2 ELSE 8
RECURSIVE SepPairs(_, _)
SepPairs(G, l) == IF l > Len(G.layers) THEN <<>>
                  ELSE [j \in 1..(Len(G.layers[l]) - 1) |-> <<G.layers[l][j], G.layers[l][j + 1]>>] \o SepPairs(G, l + 1)
\* math.Round of a non-negative multiple of 1/(2U): half away from zero
RoundHalfUp(num, den) == (2 * num + den) \div (2 * den)
AuxGraph(G, ns, factor, U) ==
    LET ae == AuxEdgesOf(G)
        m == Len(ae)
        seps == SepPairs(G, 1)
        ne == 2 * m + Len(seps)
        p == [i \in 1..ne |-> IF i <= 2 * m THEN LET j == (i + 1) \div 2 IN <<G.k + j, IF i % 2 = 1 THEN G.ef[ae[j]] ELSE G.et[ae[j]]>>
                              ELSE seps[i - 2 * m]]
        NN == G.k + m
    IN [NN |-> NN,
        es |-> [p |-> p,
                w |-> [i \in 1..ne |-> IF i <= 2 * m THEN Omega(G, ae[(i + 1) \div 2]) * factor ELSE 0],
                d |-> [i \in 1..ne |-> IF i <= 2 * m THEN 0
                                       ELSE RoundHalfUp(G.w[p[i][1]] + G.w[p[i][2]] + 2 * ns, 2 * U)],
                inl  |-> [n \in 1..NN |-> SelectSeq([i \in 1..ne |-> i], LAMBDA i : p[i][2] = n)],
                outl |-> [n \in 1..NN |-> SelectSeq([i \in 1..ne |-> i], LAMBDA i : p[i][1] = n)]]]

\* x, doubled, in units of 1/U: the layer is the node's centre; the leftmost left side becomes 0
XFromRanks(G, r, U) ==
    LET raw == [n \in 1..G.k |-> 2 * U * r[n] - G.w[n]]
        left == Min({raw[n] : n \in 1..G.k})
    IN [n \in 1..G.k |-> raw[n] - left]
\* the whole positioner; thor = NetworkSimplexThoroughness, the pivot budget is thor * len(g.Nodes)
NSPosRun(G, ns, factor, U, thor) == LET A == AuxGraph(G, ns, factor, U) IN
    IF G.k = 1 THEN [phase |-> "done", rank |-> <<0>>, capped |-> FALSE, stuck |-> FALSE] ELSE RunNSH(A.es, A.NN, thor * G.k)
NSPosX2(G, ns, factor, U, thor) == XFromRanks(G, NSPosRun(G, ns, factor, U, thor).rank, U)
=============================================================================
