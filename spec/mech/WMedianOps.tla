----------------------------- MODULE WMedianOps -----------------------------
(***************************************************************************)
(* LAYER 3 -- the weighted-median ordering of phase 3 (internal/phase3/    *)
(* wmedian.go, crossings.go) transcribed as pure operators, for proper     *)
(* layered graphs without flat edges (the state breakLongEdges leaves      *)
(* after a feasible layering; the fixed-position machinery for flat edges  *)
(* is then inert).                                                         *)
(*   G.k, G.nl           number of nodes / layers                          *)
(*   G.layer[n]          layer of node n (0-based), nodes 1..k in g.Nodes  *)
(*                       order                                             *)
(*   G.ef, G.et          per edge position: from / to node                 *)
(*   G.inl[n], G.outl[n] n.In / n.Out as sequences of edge positions       *)
(*   pos[n]              n.LayerPos = p.positions[n]                       *)
(* The slice order of a layer always equals the order by position (every   *)
(* swap updates both), so only pos is state.  Medians are exact rationals  *)
(* <<num, den>>; "no neighbour" is <<-1, 1>>.                              *)
(***************************************************************************)
EXTENDS Integers, Sequences, FiniteSets

MaxS(S) == CHOOSE x \in S : \A y \in S : y <= x
MinS(S) == CHOOSE x \in S : \A y \in S : x <= y
RECURSIVE SortedBy(_, _)
\* the nodes of S in increasing pos; equal positions (before the first run) keep graph order
SortedBy(S, pos) == IF S = {} THEN <<>>
                    ELSE LET m == CHOOSE x \in S : \A y \in S : pos[x] < pos[y] \/ (pos[x] = pos[y] /\ x <= y)
                         IN <<m>> \o SortedBy(S \ {m}, pos)
RECURSIVE SortInts(_)
SortInts(q) == IF q = <<>> THEN <<>>
               ELSE LET i == CHOOSE j \in DOMAIN q : \A m \in DOMAIN q : q[j] <= q[m]
                    IN <<q[i]>> \o SortInts([m \in 1..(Len(q) - 1) |-> IF m < i THEN q[m] ELSE q[m + 1]])
LayerSet(G, l) == {n \in 1..G.k : G.layer[n] = l}
Slice(G, l, pos) == SortedBy(LayerSet(G, l), pos)

\* ---- crossings.go: between two adjacent layers every distinct (upper pos, lower pos) cell counts once, strict inversions
Cells(G, l, pos) == {<<pos[G.ef[e]], pos[G.et[e]]>> : e \in {i \in DOMAIN G.ef : G.layer[G.ef[i]] = l /\ G.layer[G.et[i]] = l + 1}}
                    \cup {<<pos[G.et[e]], pos[G.ef[e]]>> : e \in {i \in DOMAIN G.ef : G.layer[G.et[i]] = l /\ G.layer[G.ef[i]] = l + 1}}
CountBetween(G, l, pos) ==
    IF Cardinality(LayerSet(G, l)) < 2 \/ Cardinality(LayerSet(G, l + 1)) < 2 THEN 0
    ELSE LET C == Cells(G, l, pos) IN Cardinality({p \in C \X C : p[1][1] < p[2][1] /\ p[1][2] > p[2][2]})
RECURSIVE CrossFrom(_, _, _)
CrossFrom(G, l, pos) == IF l >= G.nl - 1 THEN 0 ELSE CountBetween(G, l, pos) + CrossFrom(G, l + 1, pos)
Crossings(G, pos) == CrossFrom(G, 0, pos)
CrossingsAround(G, l, pos) ==
    IF l = 0 THEN CountBetween(G, 0, pos)
    ELSE IF l = G.nl - 1 THEN CountBetween(G, l - 1, pos)
    ELSE CountBetween(G, l - 1, pos) + CountBetween(G, l, pos)

\* ---- initPositions: depth-first from the nodes of the first (last) layer in slice order, then all nodes in graph order
\* I = [vis, idx (next index per layer, 1-based layer), pos]
RECURSIVE InitVisit(_, _, _, _), InitFold(_, _, _, _)
InitVisit(G, n, down, I) ==
    IF n \in I.vis THEN I
    ELSE LET l == G.layer[n] + 1
             I1 == [vis |-> I.vis \cup {n}, idx |-> [I.idx EXCEPT ![l] = @ + 1], pos |-> [I.pos EXCEPT ![n] = I.idx[l]]]
         IN InitFold(G, IF down THEN G.outl[n] ELSE G.inl[n], down, I1)
InitFold(G, q, down, I) ==
    IF q = <<>> THEN I
    ELSE InitFold(G, Tail(q), down, InitVisit(G, IF down THEN G.et[Head(q)] ELSE G.ef[Head(q)], down, I))
RECURSIVE InitSeq(_, _, _, _)
InitSeq(G, q, down, I) == IF q = <<>> THEN I ELSE InitSeq(G, Tail(q), down, InitVisit(G, Head(q), down, I))
InitPositions(G, oldpos, down) ==
    LET first == Slice(G, IF down THEN 0 ELSE G.nl - 1, oldpos)
        I0 == [vis |-> {}, idx |-> [l \in 1..G.nl |-> 0], pos |-> oldpos]
        I1 == InitSeq(G, first, down, I0)
    IN InitSeq(G, [n \in 1..G.k |-> n], down, I1).pos

\* ---- medians (exact rationals)
NoMed == <<-1, 1>>
MedGT(a, b) == a[1] * b[2] > b[1] * a[2]
MedEQ(a, b) == a[1] * b[2] = b[1] * a[2]
MedianOf(ap) ==           \* ap: the sorted positions of the neighbours
    LET n == Len(ap) mid == n \div 2 IN
    IF n = 0 THEN NoMed
    ELSE IF n % 2 = 1 THEN <<ap[mid + 1], 1>>
    ELSE IF n = 2 THEN <<ap[1] + ap[2], 2>>
    ELSE LET left == ap[mid] - ap[1] right == ap[n] - ap[mid + 1]
         IN IF left = right THEN <<ap[mid] + ap[mid + 1], 2>>
            ELSE <<ap[mid] * right + ap[mid + 1] * left, left + right>>
AdjPositions(G, n, edges, adj, pos) ==
    LET ms == SelectSeq([i \in DOMAIN edges |-> IF G.et[edges[i]] # n THEN G.et[edges[i]] ELSE G.ef[edges[i]]],
                        LAMBDA m : G.layer[m] = adj)
    IN SortInts([i \in DOMAIN ms |-> pos[ms[i]]])

\* ---- sortLayer: the bubble pass of the Go code on the slice `nodes`; T = [nodes, pos]
SwapPos(pos, v, w) == [pos EXCEPT ![v] = pos[w], ![w] = pos[v]]
RECURSIVE InnerPass(_, _, _, _, _)
\* one run of the "for lp < ep" loop starting at lp
InnerPass(T, med, lp0, ep, flipEqual) ==
    LET nodes == T.nodes
        \* skip nodes without median
        cand == {i \in (lp0 + 1)..ep : med[nodes[i]] # NoMed}       \* 1-based indices of the slice, lp0 is 0-based
    IN IF cand = {} THEN T
       ELSE LET lp == MinS(cand)                                     \* 1-based
                rcand == {i \in (lp + 1)..ep : med[nodes[i]][1] >= 0}
            IN IF rcand = {} THEN T
               ELSE LET rp == MinS(rcand)
                        ml == med[nodes[lp]] mr == med[nodes[rp]]
                        doSwap == MedGT(ml, mr) \/ (MedEQ(ml, mr) /\ flipEqual)
                        T1 == IF doSwap
                              THEN [nodes |-> [nodes EXCEPT ![lp] = nodes[rp], ![rp] = nodes[lp]],
                                    pos |-> SwapPos(T.pos, nodes[lp], nodes[rp])]
                              ELSE T
                    IN InnerPass(T1, med, rp - 1, ep, flipEqual)     \* lp = rp (0-based rp-1)
RECURSIVE OuterPass(_, _, _, _, _)
OuterPass(T, med, iter, ep, flipEqual) ==
    IF iter < 0 THEN T
    ELSE OuterPass(InnerPass(T, med, 0, ep, flipEqual), med, iter - 1, IF flipEqual THEN ep ELSE ep - 1, flipEqual)
SortLayer(G, l, med, pos, flipEqual) ==
    LET nodes == Slice(G, l, pos)
        T == OuterPass([nodes |-> nodes, pos |-> pos], med, Len(nodes) - 1, Len(nodes), flipEqual)
    IN T.pos

\* ---- the two sweeps; the medians of earlier layers of the same sweep stay in the map (harmless: keyed by node)
RECURSIVE TopBottom(_, _, _, _), BottomTop(_, _, _, _)
TopBottom(G, r, pos, flipEqual) ==
    IF r > G.nl - 1 THEN pos
    ELSE LET med == [n \in 1..G.k |-> IF G.layer[n] = r THEN MedianOf(AdjPositions(G, n, G.inl[n], r - 1, pos)) ELSE NoMed]
         IN TopBottom(G, r + 1, SortLayer(G, r, med, pos, flipEqual), flipEqual)
BottomTop(G, r, pos, flipEqual) ==
    IF r < 0 THEN pos
    ELSE LET med == [n \in 1..G.k |-> IF G.layer[n] = r THEN MedianOf(AdjPositions(G, n, G.outl[n], r + 1, pos)) ELSE NoMed]
         IN BottomTop(G, r - 1, SortLayer(G, r, med, pos, flipEqual), flipEqual)

\* ---- transpose: adjacent pairs i, i+1 for i < len-2 (the last pair is never tried), repeated while something improved
RECURSIVE TrLayer(_, _, _, _), TrLayers(_, _, _), Transpose(_, _, _)
\* i is 0-based; returns [pos, improved]
TrLayer(G, l, i, R) ==
    LET nodes == Slice(G, l, R.pos) IN
    IF i >= Len(nodes) - 2 THEN R
    ELSE LET v == nodes[i + 1] w == nodes[i + 2]
             cur == CrossingsAround(G, l, R.pos)
             sw == SwapPos(R.pos, v, w)
             new == CrossingsAround(G, l, sw)
         IN IF new < cur THEN TrLayer(G, l, i + 1, [pos |-> sw, improved |-> TRUE])
            ELSE TrLayer(G, l, i + 1, R)
TrLayers(G, l, R) == IF l > G.nl - 1 THEN R ELSE TrLayers(G, l + 1, TrLayer(G, l, 0, R))
Transpose(G, pos, fuel) ==
    LET R == TrLayers(G, 0, [pos |-> pos, improved |-> FALSE])
    IN IF R.improved /\ fuel > 0 THEN Transpose(G, R.pos, fuel - 1) ELSE R.pos

\* ---- wmedianRun: returns [bestx, bestp, pos (the state the run leaves behind)]
RECURSIVE RunIter(_, _, _, _, _, _, _)
RunIter(G, i, maxiter, pos, flipEqual, bestx, bestp) ==
    IF i >= maxiter \/ bestx = 0 THEN [bestx |-> bestx, bestp |-> bestp, pos |-> pos]
    ELSE LET p1 == IF i % 2 = 0 THEN TopBottom(G, 1, pos, flipEqual) ELSE BottomTop(G, G.nl - 1, pos, flipEqual)
             f1 == IF i % 2 = 0 THEN flipEqual ELSE ~flipEqual
             p2 == Transpose(G, p1, 1000)
             x == Crossings(G, p2)
         IN IF x < bestx THEN RunIter(G, i + 1, maxiter, p2, f1, x, p2)
            ELSE RunIter(G, i + 1, maxiter, p2, f1, bestx, bestp)
WMedianRun(G, oldpos, down, maxiter) ==
    LET p0 == InitPositions(G, oldpos, down)
        x0 == Crossings(G, p0)
    IN RunIter(G, 0, maxiter, p0, FALSE, x0, p0)

\* ---- execWeightedMedian (after breakLongEdges): [pos, crossings]
WMedian(G, pos0, maxiter) ==
    LET top == WMedianRun(G, pos0, TRUE, maxiter)
        btm == WMedianRun(G, top.pos, FALSE, maxiter)
    IN IF top.bestx < btm.bestx THEN [pos |-> top.bestp, crossings |-> top.bestx]
       ELSE [pos |-> btm.bestp, crossings |-> btm.bestx]
=============================================================================
