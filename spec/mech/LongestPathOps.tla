--------------------------- MODULE LongestPathOps ---------------------------
(***************************************************************************)
(* LAYER 3 -- the longest-path layerer (internal/phase2/longest_path.go)   *)
(* as pure operators: the memoised depth-first computation of              *)
(*     height(n) = max(1, max over n.Out of height(target) + Delta)        *)
(* started from the nodes in some visit order (the Go code sorts a copy of *)
(* g.Nodes by degree with the unstable sort.Slice, so the order among      *)
(* equals is unspecified: the model takes the order as a parameter and the *)
(* exhaustive wrapper LongestPath.tla explores all of them), the running   *)
(* maximum nlayers, and layer = nlayers - height.                          *)
(*   es.p       the edge list (sequence of <<from, to>>)                   *)
(*   es.outl[n] n.Out as a sequence of edge positions, in list order       *)
(*   es.d[e]    the edge's minimum length (1 everywhere in the pipeline)   *)
(***************************************************************************)
EXTENDS Integers, Sequences, FiniteSets

LPMax2(a, b) == IF a > b THEN a ELSE b

\* followLongestPath; S = [height, nlayers]; returns S with height[n] set
RECURSIVE Follow(_, _, _), FollowOut(_, _, _, _, _)
Follow(es, n, S) ==
    IF S.height[n] >= 0 THEN S
    ELSE LET R == FollowOut(es, n, es.outl[n], 1, S)
         IN [height |-> [R.S.height EXCEPT ![n] = R.nodeh], nlayers |-> LPMax2(R.S.nlayers, R.nodeh)]
\* the loop over n.Out: returns [S, nodeh]
FollowOut(es, n, q, nodeh, S) ==
    IF q = <<>> THEN [S |-> S, nodeh |-> nodeh]
    ELSE LET e == Head(q)
             m == IF es.p[e][2] # n THEN es.p[e][2] ELSE es.p[e][1]         \* ConnectedNode
         IN IF es.p[e][1] = es.p[e][2] THEN FollowOut(es, n, Tail(q), nodeh, S)          \* self-loops are skipped
            ELSE LET S1 == Follow(es, m, S)
                 IN FollowOut(es, n, Tail(q), LPMax2(nodeh, S1.height[m] + es.d[e]), S1)
LPInit(NN) == [height |-> [n \in 1..NN |-> -1], nlayers |-> 0]
RECURSIVE FollowAll(_, _, _)
FollowAll(es, order, S) == IF order = <<>> THEN S ELSE FollowAll(es, Tail(order), Follow(es, Head(order), S))
LPLayers(es, NN, order) == LET S == FollowAll(es, order, LPInit(NN)) IN [n \in 1..NN |-> S.nlayers - S.height[n]]

\* ---- the specification the mechanism must meet (C11), written without recursion over the visit:
\* the number of nodes on the longest directed path starting at n, as a fixed point
RECURSIVE LongestFrom(_, _, _)
LongestFrom(es, NN, h) ==
    LET h2 == [n \in 1..NN |-> LET succ == {es.p[e][2] : e \in {f \in DOMAIN es.p : es.p[f][1] = n /\ es.p[f][2] # n}}
                               IN IF succ = {} THEN 1 ELSE 1 + (CHOOSE x \in {h[m] : m \in succ} : \A y \in {h[m] : m \in succ} : y <= x)]
    IN IF h2 = h THEN h ELSE LongestFrom(es, NN, h2)
PathLen(es, NN) == LongestFrom(es, NN, [n \in 1..NN |-> 1])
=============================================================================
