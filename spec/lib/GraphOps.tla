------------------------------ MODULE GraphOps ------------------------------
(***************************************************************************)
(* Pure operators on finite directed multigraphs, shared by every layer of *)
(* the autog specification.                                                *)
(*                                                                         *)
(* A multigraph is a pair (n, es): the nodes are 1..n and es is a sequence *)
(* of arcs <<u, v>> (parallel arcs, antiparallel arcs and self-loops are   *)
(* all allowed; the position in es is the identity of an arc instance).    *)
(* An "arc set" A is a plain set of <<u, v>> pairs, used when multiplicity *)
(* does not matter (reachability, acyclicity).                             *)
(***************************************************************************)
EXTENDS Integers, Sequences, FiniteSets

Max(S) == CHOOSE x \in S : \A y \in S : y <= x
Min(S) == CHOOSE x \in S : \A y \in S : x <= y
Abs(x) == IF x < 0 THEN -x ELSE x

RECURSIVE SumSeq(_)
SumSeq(s) == IF s = <<>> THEN 0 ELSE Head(s) + SumSeq(Tail(s))

RECURSIVE SumSet(_, _)
\* sum of f[x] over the finite set S
SumSet(f, S) == IF S = {} THEN 0 ELSE LET x == CHOOSE y \in S : TRUE IN f[x] + SumSet(f, S \ {x})

Range(s) == {s[i] : i \in DOMAIN s}
RECURSIVE SortedSeq(_)
\* the elements of a finite set of integers in increasing order
SortedSeq(S) == IF S = {} THEN <<>> ELSE LET m == CHOOSE x \in S : \A y \in S : x <= y IN <<m>> \o SortedSeq(S \ {m})

\* ---------------------------------------------------------------- bags
\* the bag (multiset) of F(s[i]) for i in D, as a function value -> count
BagOf(s, D, F(_)) == [p \in {F(s[i]) : i \in D} |-> Cardinality({i \in D : F(s[i]) = p})]

\* ---------------------------------------------------------------- arcs
NonLoopIdx(es) == {i \in DOMAIN es : es[i][1] # es[i][2]}
LoopIdx(es)    == {i \in DOMAIN es : es[i][1] = es[i][2]}
ArcSet(es)     == {<<es[i][1], es[i][2]>> : i \in NonLoopIdx(es)}
Flip(a)        == <<a[2], a[1]>>

\* a graph without parallel and antiparallel arcs (self-loops ignored)
IsSimple(es) == \A i, j \in NonLoopIdx(es) :
                   i # j => /\ <<es[i][1], es[i][2]>> # <<es[j][1], es[j][2]>>
                            /\ <<es[i][1], es[i][2]>> # <<es[j][2], es[j][1]>>

\* ------------------------------------------------- undirected structure
UStep(es, S) == S \cup {es[i][2] : i \in {j \in DOMAIN es : es[j][1] \in S}}
                  \cup {es[i][1] : i \in {j \in DOMAIN es : es[j][2] \in S}}
RECURSIVE UReach(_, _)
UReach(es, S) == LET T == UStep(es, S) IN IF T = S THEN S ELSE UReach(es, T)

\* comp[i] = smallest node of the connected component of i
RECURSIVE CompFrom(_, _, _, _)
CompFrom(n, es, todo, f) ==
    IF todo = {} THEN f
    ELSE LET m == Min(todo)
             C == UReach(es, {m})
         IN CompFrom(n, es, todo \ C, [i \in DOMAIN f \cup C |-> IF i \in C THEN m ELSE f[i]])
CompMap(n, es) == CompFrom(n, es, 1..n, <<>>)
CompSets(n, es) == LET c == CompMap(n, es) IN {{i \in 1..n : c[i] = m} : m \in Range(c)}

\* --------------------------------------------------- directed structure
DStep(A, S) == S \cup {a[2] : a \in {b \in A : b[1] \in S}}
RECURSIVE DReach(_, _)
DReach(A, S) == LET T == DStep(A, S) IN IF T = S THEN S ELSE DReach(A, T)

\* Kahn: repeatedly strip the nodes without incoming arc
RECURSIVE StripSources(_, _)
StripSources(N, A) ==
    LET src == {v \in N : ~\E a \in A : a[2] = v}
    IN IF N = {} THEN TRUE
       ELSE IF src = {} THEN FALSE
       ELSE StripSources(N \ src, {a \in A : a[1] \notin src})
IsAcyclic(A) == StripSources({a[1] : a \in A} \cup {a[2] : a \in A}, A)

\* longest path to a sink, counted in nodes (a sink has height 1); A must be acyclic
RECURSIVE HeightFrom(_, _, _)
HeightFrom(N, A, h) ==
    LET ready == {v \in N \ DOMAIN h : \A a \in A : a[1] = v => a[2] \in DOMAIN h}
        hv(v) == LET S == {h[a[2]] : a \in {b \in A : b[1] = v}} IN IF S = {} THEN 1 ELSE 1 + Max(S)
    IN IF ready = {} THEN h
       ELSE HeightFrom(N, A, [v \in DOMAIN h \cup ready |-> IF v \in ready THEN hv(v) ELSE h[v]])
HeightToSink(N, A) == HeightFrom(N, A, <<>>)

\* an out-tree: connected, n-1 arcs, no loops, every node has at most one incoming arc
IsOutTree(n, es) == /\ NonLoopIdx(es) = DOMAIN es /\ Len(es) = n - 1
                    /\ Cardinality(CompSets(n, es)) = 1
                    /\ \A v \in 1..n : Cardinality({i \in DOMAIN es : es[i][2] = v}) <= 1
IsInTree(n, es)  == /\ NonLoopIdx(es) = DOMAIN es /\ Len(es) = n - 1
                    /\ Cardinality(CompSets(n, es)) = 1
                    /\ \A v \in 1..n : Cardinality({i \in DOMAIN es : es[i][1] = v}) <= 1

\* ------------------------------------------------- canonical edge lists
\* node indices appear in first-appearance order
RECURSIVE CanonFrom(_, _, _)
CanonFrom(es, k, seen) ==
    IF k > Len(es) THEN TRUE
    ELSE LET u == es[k][1] v == es[k][2]
             okU == u <= seen + 1
             s1 == IF u = seen + 1 THEN seen + 1 ELSE seen
             okV == v <= s1 + 1
             s2 == IF v = s1 + 1 THEN s1 + 1 ELSE s1
         IN okU /\ okV /\ CanonFrom(es, k + 1, s2)
IsCanonical(es) == CanonFrom(es, 1, 0)
NodeCount(es) == IF es = <<>> THEN 0 ELSE Max({es[i][1] : i \in DOMAIN es} \cup {es[i][2] : i \in DOMAIN es})

\* ------------------------------------------------------- layerings
\* total span of the arcs (u -> v oriented) under rank function rk
TotalSpan(arcs, rk) == SumSeq([i \in DOMAIN arcs |-> Abs(rk[arcs[i][2]] - rk[arcs[i][1]])])
FeasibleRank(arcs, rk) == \A i \in DOMAIN arcs : rk[arcs[i][2]] - rk[arcs[i][1]] >= 1
\* brute-force optimum over all rank functions 1..n -> 0..n-1 (only for n <= 5)
MinTotalSpan(n, arcs) ==
    Min({TotalSpan(arcs, rk) : rk \in {f \in [1..n -> 0..(n - 1)] : FeasibleRank(arcs, f)}})
=============================================================================
