------------------------------ MODULE Pipeline ------------------------------
(***************************************************************************)
(* LAYER 2 -- the per-component pipeline of autog.Layout, one action per   *)
(* critical section of autolayout.go:                                      *)
(*                                                                         *)
(*   Pre   strip self-loops            (preprocessor.IgnoreSelfLoops)      *)
(*   P1    cycle breaking              (phase1)   -> acyclic               *)
(*   P2    layering                    (phase2)   -> every edge spans >= 1 *)
(*   P3    ordering                    (phase3)   -> proper, ordered       *)
(*   P4    positioning                 (phase4)   -> coordinates           *)
(*   P5    routing                     (phase5)   -> long edges merged     *)
(*   Post  restore loops, un-reverse   (postprocessor)                     *)
(*                                                                         *)
(* Each action is RELATIONAL: it allows every successor state that         *)
(* satisfies the contract the code documents for that phase ("the graph    *)
(* must be connected / acyclic / layered / layered and ordered") and       *)
(* nothing else.  The contracts are the operators Contract0 .. Contract6   *)
(* over stage snapshots; PipelineTrace.tla binds the successor state to    *)
(* the snapshot recorded by the stage hook H1 of the real code.            *)
(*                                                                         *)
(* The deterministic edge-list surgery (strip loops, flip, split long      *)
(* edges through helper nodes, merge them back, restore loops, un-reverse) *)
(* is also written as functions, and the composition theorem               *)
(*     T1:  Post . Merge . Split . Flip(R) . Strip  =  identity on the     *)
(*          edge bag, for every R and every feasible layering              *)
(* is checked by TLC for all small inputs (MC_T1.cfg): this is the         *)
(* design-level argument behind property C02's edge clause.                *)
(*                                                                         *)
(* A snapshot s:  s.nodes[k] = <<ref, virt, layer, pos, x, y, w, h>>       *)
(*                s.edges[k] = <<from, to, reversed, #points, arrowStart>> *)
(*                s.layers[l] = node refs of layer l-1 in order, s.lh[l]   *)
(* ref > 0: input node index; ref < 0: helper node.  Coordinates 1/64.     *)
(***************************************************************************)
EXTENDS PipelineOps

CONSTANTS TN, TM          \* T1 is checked for all canonical edge lists with at most TN nodes and TM edges
VARIABLES tes, tR, tlay, tpc
tvars == <<tes, tR, tlay, tpc>>
TInit == tes = <<>> /\ tR = {} /\ tlay = <<>> /\ tpc = "build"
TBuild == /\ tpc = "build" /\ Len(tes) < TM
          /\ \E u, v \in 1..TN : IsCanonical(Append(tes, <<u, v>>)) /\ tes' = Append(tes, <<u, v>>)
          /\ UNCHANGED <<tR, tlay, tpc>>
\* any set R whose reversal makes the graph acyclic, and any layering that is feasible for the result
TChoose == /\ tpc = "build" /\ tes # <<>>
           /\ \E R \in SUBSET NonLoopIdx(tes) :
                 LET ws == FlipSet(Strip(tes), R)
                     arcs == {<<ws[i].f, ws[i].t>> : i \in DOMAIN ws}
                 IN /\ IsAcyclic(arcs)
                    /\ \E lay \in [1..NodeCount(tes) -> 0..(NodeCount(tes) - 1)] :
                          /\ \A a \in arcs : lay[a[2]] - lay[a[1]] >= 1
                          /\ tlay' = lay
                    /\ tR' = R
           /\ tpc' = "chosen" /\ UNCHANGED tes
TNext == TBuild \/ TChoose
TSpec == TInit /\ [][TNext]_tvars
T1_EdgeBagIdentity == tpc = "chosen" => PairBag(Surgery(tes, tR, tlay)) = BagOf(tes, DOMAIN tes, LAMBDA e : <<e[1], e[2]>>)
\* each input edge instance comes back exactly once, in its own direction
T1_InstancesPreserved == tpc = "chosen" =>
    LET out == Surgery(tes, tR, tlay) IN
    /\ Len(out) = Len(tes)
    /\ \A i \in DOMAIN tes : \E j \in DOMAIN out : out[j].id = i /\ out[j].f = tes[i][1] /\ out[j].t = tes[i][2] /\ out[j].rev = 0
=============================================================================
