---------------------------- MODULE PipelineOps -----------------------------
(***************************************************************************)
(* The phase contracts of the layer-2 specification (Contract0..Contract6) *)
(* and the edge-list surgery as functions; see Pipeline.tla for the        *)
(* explanation.  Used by Pipeline.tla (composition theorem T1) and by      *)
(* PipelineTrace.tla (validation of recorded stage snapshots).             *)
(***************************************************************************)
EXTENDS GraphOps, TLC

Q == 64
\* NodeSpacing in 1/Q units (c.ns / c.nsd coordinate units, nsd a power of two)
NSq(c) == (Q * c.ns) \div c.nsd
SizeAwareP4 == {"sink", "valign", "pack", "nspos"}

\* ------------------------------------------------------------------ accessors
Refs(s) == {s.nodes[k][1] : k \in DOMAIN s.nodes}
NodeOf(s, ref) == s.nodes[CHOOSE k \in DOMAIN s.nodes : s.nodes[k][1] = ref]
LayerOfRef(s, ref) == NodeOf(s, ref)[3]
PosOfRef(s, ref) == NodeOf(s, ref)[4]
EArcs(s) == {<<s.edges[k][1], s.edges[k][2]>> : k \in DOMAIN s.edges}
ETriples(s) == BagOf(s.edges, DOMAIN s.edges, LAMBDA e : <<e[1], e[2], e[3]>>)
RealRefs(s) == {r \in Refs(s) : r > 0}
Virt(s) == {r \in Refs(s) : r < 0}
NodesUnchanged(a, b) == [k \in DOMAIN a.nodes |-> <<a.nodes[k][1], a.nodes[k][7], a.nodes[k][8]>>]
                        = [k \in DOMAIN b.nodes |-> <<b.nodes[k][1], b.nodes[k][7], b.nodes[k][8]>>]

\* the k-th connected component of the input, components ordered by their smallest node (= graph order)
CompList(c) == LET cm == CompMap(c.n, c.edges)
                   roots == {cm[i] : i \in 1..c.n}
                   ord == SortedSeq(roots)
               IN [k \in DOMAIN ord |-> {i \in 1..c.n : cm[i] = ord[k]}]

\* ------------------------------------------------------------------ phase contracts (sets of names of violated clauses)
If(b, name) == IF b THEN {} ELSE {name}

\* Pre: the component's nodes in graph order, its non-loop edges in input order, nothing reversed
Contract0(c, k, s) ==
    LET C == CompList(c)[k]
        es == SelectSeq(c.edges, LAMBDA e : e[1] \in C /\ e[1] # e[2])
    IN If([i \in DOMAIN s.nodes |-> s.nodes[i][1]] = SortedSeq(C), "Pre_NodesInGraphOrder")
       \cup If([i \in DOMAIN s.edges |-> <<s.edges[i][1], s.edges[i][2], s.edges[i][3]>>]
               = [i \in DOMAIN es |-> <<es[i][1], es[i][2], 0>>], "Pre_EdgesInInputOrderLoopsStripped")

\* P1: same nodes; every edge kept in place, as it was or flipped and marked; result acyclic; DAGs untouched
Contract1(c, a, s) ==
    If(NodesUnchanged(a, s), "P1_NodesUnchanged")
    \cup If(Len(s.edges) = Len(a.edges) /\ \A i \in DOMAIN s.edges :
              \/ <<s.edges[i][1], s.edges[i][2], s.edges[i][3]>> = <<a.edges[i][1], a.edges[i][2], a.edges[i][3]>>
              \/ <<s.edges[i][1], s.edges[i][2], s.edges[i][3]>> = <<a.edges[i][2], a.edges[i][1], 1 - a.edges[i][3]>>, "P1_EdgesKeptOrFlipped")
    \cup If(IsAcyclic(EArcs(s)), "P1_Acyclic")
    \cup If(IsAcyclic(EArcs(a)) => s.edges = a.edges, "P1_DagUntouched")

\* P2: edges untouched; every edge spans at least one layer; lowest layer is 0; the layer table mirrors the node layers
Contract2(c, a, s) ==
    If(s.edges = a.edges /\ NodesUnchanged(a, s), "P2_GraphUnchanged")
    \cup If(\A i \in DOMAIN s.edges : LayerOfRef(s, s.edges[i][2]) - LayerOfRef(s, s.edges[i][1]) >= 1, "P2_Feasible")
    \cup If(Min({s.nodes[i][3] : i \in DOMAIN s.nodes}) = 0, "P2_LowestLayerZero")
    \cup If(\A l \in DOMAIN s.layers : {s.layers[l][j] : j \in DOMAIN s.layers[l]} = {r \in Refs(s) : LayerOfRef(s, r) = l - 1}, "P2_LayerTable")
    \cup If(Len(s.layers) = 1 + Max({s.nodes[i][3] : i \in DOMAIN s.nodes}), "P2_LayerCount")
    \cup If(c.p2 = "lp" => LET h == HeightToSink(Refs(s), EArcs(s)) top == Max({h[r] : r \in Refs(s)})
                           IN \A r \in Refs(s) : LayerOfRef(s, r) = top - h[r], "P2_LongestPath")

\* P3: the layered graph is made proper through helper nodes and every layer is a permutation
\* follow a chain of helper nodes from edge e to the real node at its end
RECURSIVE ChainEnd(_, _)
ChainEnd(s, ref) == IF ref > 0 THEN ref
                    ELSE LET outs == {i \in DOMAIN s.edges : s.edges[i][1] = ref}
                         IN IF Cardinality(outs) # 1 THEN 0 ELSE ChainEnd(s, s.edges[CHOOSE i \in outs : TRUE][2])
Contracted(s) == LET heads == {i \in DOMAIN s.edges : s.edges[i][1] > 0}
                 IN BagOf(s.edges, heads, LAMBDA e : <<e[1], ChainEnd(s, e[2]), e[3]>>)
Contract3(c, a, s) ==
    If(\A r \in RealRefs(a) : r \in Refs(s) /\ LayerOfRef(s, r) = LayerOfRef(a, r), "P3_RealNodesKeepLayer")
    \cup If(Len(a.layers) > 1 => \A i \in DOMAIN s.edges : LayerOfRef(s, s.edges[i][2]) - LayerOfRef(s, s.edges[i][1]) = 1, "P3_Proper")
    \cup If(\A v \in Virt(s) : Cardinality({i \in DOMAIN s.edges : s.edges[i][1] = v}) = 1
                               /\ Cardinality({i \in DOMAIN s.edges : s.edges[i][2] = v}) = 1, "P3_HelperInOutOne")
    \cup If(Contracted(s) = ETriples(a), "P3_ChainsContractToLayeredEdges")
    \cup If(\A i \in DOMAIN s.edges : s.edges[i][1] < 0 =>
              \* a fragment carries the reversed flag of the edge it belongs to
              \E j \in DOMAIN s.edges : s.edges[j][2] = s.edges[i][1] /\ s.edges[j][3] = s.edges[i][3], "P3_FragmentsKeepFlag")
    \cup If(Len(a.layers) > 1 => \A l \in DOMAIN s.layers :
              /\ {s.layers[l][j] : j \in DOMAIN s.layers[l]} = {r \in Refs(s) : LayerOfRef(s, r) = l - 1}
              /\ \A j \in DOMAIN s.layers[l] : PosOfRef(s, s.layers[l][j]) = j - 1, "P3_LayersArePermutations")

\* P4: order kept; y stacks the layers (height of the tallest node + LayerSpacing); size-aware positioners separate neighbours
Contract4(c, a, s) ==
    If(s.edges = a.edges /\ s.layers = a.layers, "P4_OrderAndGraphUnchanged")
    \cup If(Len(s.nodes) > 1 => \A l \in DOMAIN s.layers : s.layers[l] # <<>> =>
              s.lh[l] = Max({NodeOf(s, s.layers[l][j])[8] : j \in DOMAIN s.layers[l]}), "P4_LayerHeight")
    \cup If((Len(s.nodes) > 1 /\ s.exact = 1) => \A l \in DOMAIN s.layers : \A j \in DOMAIN s.layers[l] :
              NodeOf(s, s.layers[l][j])[6] = SumSeq([m \in 1..(l - 1) |-> s.lh[m] + Q * c.ls]), "P4_YStacksLayers")
    \* (the network-simplex positioner works on an integer grid: with a fractional NodeSpacing it keeps the ROUNDED centre distance,
    \* which NSPositionOps predicts exactly; the plain inequality is its contract for integer spacings only)
    \cup If((c.p4 \in SizeAwareP4 /\ s.exact = 1 /\ (c.p4 = "nspos" => c.nsd = 1)) => \A l \in DOMAIN s.layers : \A j \in 1..(Len(s.layers[l]) - 1) :
              LET u == NodeOf(s, s.layers[l][j]) w == NodeOf(s, s.layers[l][j + 1])
              IN u[5] + u[7] + NSq(c) <= w[5], "P4_NeighboursSeparated")

\* P5: long edges merged back into their head edge; arrow flag copied from the reversed flag; point counts per style
Contract5(c, a, s) ==
    If(\A i \in DOMAIN s.edges : s.edges[i][1] > 0 /\ s.edges[i][2] > 0, "P5_NoFragmentsLeft")
    \cup If(ETriples(s) = Contracted(a), "P5_MergedEdgesAreTheLayeredEdges")
    \cup If(c.p5 # "noop" /\ Len(s.nodes) > 1 => \A i \in DOMAIN s.edges : s.edges[i][5] = s.edges[i][3], "P5_ArrowFollowsReversed")
    \cup If(c.p5 = "straight" /\ Len(s.nodes) > 1 => \A i \in DOMAIN s.edges : s.edges[i][4] = 2, "P5_StraightTwoPoints")
    \cup If(c.p5 = "poly" /\ Len(s.nodes) > 1 => \A i \in DOMAIN s.edges :
              s.edges[i][4] = 1 + Abs(LayerOfRef(s, s.edges[i][2]) - LayerOfRef(s, s.edges[i][1])), "P5_PolylineOnePointPerLayer")

\* Post: loops restored, nothing reversed any more, the component's input edges as a bag
Contract6(c, k, a, s) ==
    LET C == CompList(c)[k]
        es == SelectSeq(c.edges, LAMBDA e : e[1] \in C)
    IN If(\A i \in DOMAIN s.edges : s.edges[i][3] = 0, "Post_NothingReversed")
       \cup If(BagOf(s.edges, DOMAIN s.edges, LAMBDA e : <<e[1], e[2]>>) = BagOf(es, DOMAIN es, LAMBDA e : <<e[1], e[2]>>), "Post_EdgeBagIsInput")
       \cup If(\A i \in DOMAIN a.edges : i \in DOMAIN s.edges /\ s.edges[i][5] = a.edges[i][5] /\ s.edges[i][4] = a.edges[i][4], "Post_RoutesKept")

\* ------------------------------------------------------------------ the edge-list surgery as functions (T1)
\* an edge instance: [f, t, rev, id]; id = position in the input list
Strip(es) == SelectSeq([i \in DOMAIN es |-> [f |-> es[i][1], t |-> es[i][2], rev |-> 0, id |-> i]], LAMBDA e : e.f # e.t)
Loops(es) == SelectSeq([i \in DOMAIN es |-> [f |-> es[i][1], t |-> es[i][2], rev |-> 0, id |-> i]], LAMBDA e : e.f = e.t)
FlipSet(ws, R) == [i \in DOMAIN ws |-> IF ws[i].id \in R THEN [ws[i] EXCEPT !.f = ws[i].t, !.t = ws[i].f, !.rev = 1 - @] ELSE ws[i]]
Helper(id, j) == -(id * 100 + j)       \* the j-th helper node of edge id (real nodes are positive)
\* breakLongEdges: an edge spanning d > 1 layers becomes a head fragment into helper node Helper(id, 1), d-2 inner fragments and a tail fragment
Fragments(e, lay) ==
    LET d == lay[e.t] - lay[e.f] IN
    IF d <= 1 THEN <<[f |-> e.f, t |-> e.t, rev |-> e.rev, id |-> e.id, part |-> 1]>>
    ELSE [j \in 1..d |-> [f |-> IF j = 1 THEN e.f ELSE Helper(e.id, j - 1), t |-> IF j = d THEN e.t ELSE Helper(e.id, j),
                          rev |-> e.rev, id |-> e.id, part |-> j]]
RECURSIVE SplitAll(_, _, _)
SplitAll(ws, i, lay) == IF i > Len(ws) THEN <<>> ELSE Fragments(ws[i], lay) \o SplitAll(ws, i + 1, lay)
\* mergeLongEdges / reduceForward: the head fragment (part 1) swallows its chain and is re-targeted to the real end node
IsReal(x) == x > 0
RECURSIVE EndOfChain(_, _)
EndOfChain(fs, x) == IF IsReal(x) THEN x ELSE EndOfChain(fs, (CHOOSE g \in Range(fs) : g.f = x).t)
MergeAll(fs) == LET heads == SelectSeq(fs, LAMBDA g : g.part = 1)
                IN [i \in DOMAIN heads |-> [f |-> heads[i].f, t |-> EndOfChain(fs, heads[i].t), rev |-> heads[i].rev, id |-> heads[i].id]]
Unrev(ws) == [i \in DOMAIN ws |-> IF ws[i].rev = 1 THEN [ws[i] EXCEPT !.f = ws[i].t, !.t = ws[i].f, !.rev = 0] ELSE ws[i]]
Surgery(es, R, lay) == Unrev(MergeAll(SplitAll(FlipSet(Strip(es), R), 1, lay))) \o Loops(es)
PairBag(ws) == BagOf(ws, DOMAIN ws, LAMBDA e : <<e.f, e.t>>)

=============================================================================
