------------------------------ MODULE Compose -------------------------------
(***************************************************************************)
(* Composition theorem T2 (layer 2 => layer 1), checked by TLC at small    *)
(* scope: WHATEVER the phases do, as long as each one keeps its contract   *)
(* (PipelineOps!Contract1..5), the drawing that the collect loop returns   *)
(* satisfies the layer-1 properties C03 (bands, gaps, edges span bands,    *)
(* arrow flag iff drawn upward, DAGs all downward) and C04 (no overlap,    *)
(* band spacing) of AutogApi.tla.                                          *)
(*                                                                         *)
(* The system enumerates, for every connected loop-free multigraph edge    *)
(* list up to the bound: every reversal set R that makes it acyclic (none  *)
(* for a DAG: P1_DagUntouched), every feasible layering with lowest layer  *)
(* 0, the helper nodes of the long edges (PipelineOps!SplitAll), every     *)
(* order of every layer, node sizes from a small set, and every x          *)
(* assignment on a coarse grid in which CONSECUTIVE nodes of a layer -     *)
(* helper nodes included - are separated (P4_NeighboursSeparated); y       *)
(* stacks the layers (P4_YStacksLayers).  From that state it builds the    *)
(* Call and Return records of the trace format and evaluates the very      *)
(* operators C03_Fail / C04_Fail that judge the real executions.           *)
(*                                                                         *)
(* The design arguments this exercises: separation of consecutive nodes    *)
(* (helper nodes of width 0 among them) implies pairwise separation of     *)
(* the real nodes; stacking by the tallest node of a layer implies the     *)
(* band gap and that nodes of different layers never overlap; feasibility  *)
(* of the layering plus the flag copied from `reversed` implies ArrowIffUp *)
(* and DagAllDown.  ConstructionMeetsContract4 re-checks the constructed   *)
(* snapshot against the contract operator itself.                          *)
(***************************************************************************)
EXTENDS AutogApi
P == INSTANCE PipelineOps

CONSTANTS CN, CM,       \* at most CN nodes, CM edges
          Widths, Spacings    \* node widths / NodeSpacing values in coordinate units
\* heights by node index (patterns instead of the full product: the argument about heights is per layer)
HeightPatterns == {<<2, 2, 2, 2>>, <<0, 2, 1, 3>>, <<3, 0, 0, 1>>}

VARIABLES es, st, pc
\* (AutogApi declares the API state machine's variables cur and grp: they idle here)
vars == <<es, st, pc, cur, grp>>

RealNodes == 1..NodeCount(es)
Perms(S) == {f \in [1..Cardinality(S) -> S] : \A i, j \in 1..Cardinality(S) : i # j => f[i] # f[j]}

Init == es = <<>> /\ st = <<>> /\ pc = "build" /\ ApiInit
Build == /\ pc = "build" /\ Len(es) < CM
         /\ \E u, v \in 1..CN : u # v /\ IsCanonical(Append(es, <<u, v>>)) /\ es' = Append(es, <<u, v>>)
         /\ UNCHANGED <<st, pc, cur, grp>>

\* layer of every node of the proper graph: real nodes by `lay`, the j-th helper node of edge e at lay[e.f] + j
HelperLayer(ws, lay, ref) == LET id == (-ref) \div 100 j == (-ref) % 100
                                 e == CHOOSE w \in Range(ws) : w.id = id
                             IN lay[e.f] + j
Members(ws, fs, lay, l) == {i \in RealNodes : lay[i] = l}
                           \cup {g.t : g \in {h \in Range(fs) : h.t < 0 /\ HelperLayer(ws, lay, h.t) = l}}

Choose ==
    /\ pc = "build" /\ es # <<>> /\ Cardinality(CompSets(NodeCount(es), es)) = 1
    /\ \E R \in SUBSET DOMAIN es :
         LET ws == P!FlipSet(P!Strip(es), R)
             arcs == {<<ws[i].f, ws[i].t>> : i \in DOMAIN ws}
         IN /\ IsAcyclic(arcs)
            /\ (IsAcyclic(ArcSet(es)) => R = {})                                 \* P1_DagUntouched
            /\ \E lay \in [RealNodes -> 0..(NodeCount(es) - 1)] :
                 /\ \A a \in arcs : lay[a[2]] - lay[a[1]] >= 1                   \* P2_Feasible
                 /\ \E i \in RealNodes : lay[i] = 0                              \* P2_LowestLayerZero
                 /\ LET fs == P!SplitAll(ws, 1, lay)
                        top == Max({lay[i] : i \in RealNodes})
                    IN \E ord \in [0..top -> UNION {Perms(Members(ws, fs, lay, l)) : l \in 0..top}] :
                         /\ \A l \in 0..top : ord[l] \in Perms(Members(ws, fs, lay, l))   \* P3_LayersArePermutations
                         /\ \E w \in [RealNodes -> Widths], hsel \in HeightPatterns, ns \in Spacings :
                              \E slack \in [UNION {Members(ws, fs, lay, l) : l \in 0..top} -> {0, 1}] :
                                 st' = [R |-> R, lay |-> lay, fs |-> fs, top |-> top, ord |-> ord, w |-> w,
                                        h |-> [i \in RealNodes |-> hsel[((i - 1) % Len(hsel)) + 1]], ns |-> ns, slack |-> slack]
    /\ pc' = "chosen" /\ UNCHANGED <<es, cur, grp>>
Next == Build \/ Choose
Spec == Init /\ [][Next]_vars

\* ------------------------------------------------------------------ the drawing that the contracts allow
W(ref) == IF ref > 0 THEN Q * st.w[ref] ELSE 0
H(ref) == IF ref > 0 THEN Q * st.h[ref] ELSE 0
LayerH(l) == Max({H(st.ord[l][j]) : j \in DOMAIN st.ord[l]})
RECURSIVE YOf(_)
YOf(l) == IF l = 0 THEN 0 ELSE YOf(l - 1) + LayerH(l - 1) + Q * 1                        \* LayerSpacing 1
\* consecutive nodes: left side of the next = right side of the previous + NodeSpacing + slack (0 or 1 unit)
RECURSIVE XAt(_, _)
XAt(l, j) == IF j = 1 THEN Q * st.slack[st.ord[l][1]]
             ELSE XAt(l, j - 1) + W(st.ord[l][j - 1]) + Q * st.ns + Q * st.slack[st.ord[l][j]]
PosOf(ref) == LET l == CHOOSE m \in 0..st.top : \E j \in DOMAIN st.ord[m] : st.ord[m][j] = ref
                  j == CHOOSE k \in DOMAIN st.ord[l] : st.ord[l][k] = ref
              IN <<l, j>>
XOf(ref) == XAt(PosOf(ref)[1], PosOf(ref)[2])

CallRec == [n |-> NodeCount(es), edges |-> es, ns |-> st.ns, nsd |-> 1, sden |-> 1, ls |-> 1, p1 |-> "dfs", p2 |-> "ns", p4 |-> "sink", p5 |-> "straight",
            virt |-> 0, fixed |-> <<>>, smap |-> [i \in RealNodes |-> <<1, st.w[i], st.h[i]>>]]
RetRec == [nodes |-> [i \in RealNodes |-> [i |-> i, v |-> 0, vid |-> 0, x |-> XOf(i), y |-> YOf(st.lay[i]), w |-> W(i), h |-> H(i)]],
           oe |-> [k \in DOMAIN es |-> [f |-> es[k][1], t |-> es[k][2], ahs |-> IF k \in st.R THEN 1 ELSE 0,      \* P5_ArrowFollowsReversed + Post
                                        pts |-> <<>>]],
           exact |-> 1, fin |-> 1]

\* the constructed state as a stage-4 snapshot of PipelineOps (nodes <<ref, virt, layer, pos, x, y, w, h>>)
AllRefs == UNION {{st.ord[l][j] : j \in DOMAIN st.ord[l]} : l \in 0..st.top}
RefSeq == SortedSeq(AllRefs)
Snap4 == [nodes |-> [k \in DOMAIN RefSeq |-> LET ref == RefSeq[k] IN
                        <<ref, IF ref < 0 THEN 1 ELSE 0, PosOf(ref)[1], PosOf(ref)[2] - 1, XOf(ref), YOf(PosOf(ref)[1]), W(ref), H(ref)>>],
          edges |-> [k \in DOMAIN st.fs |-> <<st.fs[k].f, st.fs[k].t, st.fs[k].rev, 0, 0>>],
          layers |-> [l \in 1..(st.top + 1) |-> st.ord[l - 1]],
          lh |-> [l \in 1..(st.top + 1) |-> LayerH(l - 1)],
          exact |-> 1]

\* ------------------------------------------------------------------ T2
ConstructionMeetsContract4 == pc = "chosen" => P!Contract4(CallRec, Snap4, Snap4) = {}
T2_C03 == pc = "chosen" => LET v == View(CallRec, RetRec) IN C03_Applies(CallRec, RetRec, v) /\ C03_Fail(CallRec, RetRec, v) = {}
T2_C04 == pc = "chosen" => LET v == View(CallRec, RetRec) IN C04_Applies(CallRec, RetRec, v) /\ C04_Fail(CallRec, RetRec, v) = {}
\* goal predicates (must be violated: the bound contains helper nodes between real nodes, and reversed edges)
GoalHelperBetween == ~(pc = "chosen" /\ \E l \in 0..st.top : Len(st.ord[l]) >= 3 /\ st.ord[l][2] < 0)
GoalReversed == ~(pc = "chosen" /\ st.R # {})
=============================================================================
