--------------------------- MODULE PipelineTrace ----------------------------
(***************************************************************************)
(* Trace validation of the stage snapshots emitted by hook H1 (build tag   *)
(* verif) against the layer-2 specification Pipeline.tla.                  *)
(*                                                                         *)
(* Trace lines: Call, then for every connected component the seven Stage   *)
(* records 0..6 in pipeline order, then Return / Panic / Abort.  Each      *)
(* Stage record is consumed by the Pipeline action of that stage, whose    *)
(* guard is the phase contract between the previous snapshot and this one. *)
(* A snapshot the contract does not allow is reported as a DRIFT line      *)
(* (rule 3 of DESIGN.md: drift is a diagnostic, never a verdict - the      *)
(* verdicts come from layer 1) and the replay goes on from the recorded    *)
(* state, so the rest of the trace is still checked.                       *)
(***************************************************************************)
EXTENDS PipelineOps, NSPositionOps, Json, IOUtils, TLC

Trace == ndJsonDeserialize(IOEnv.VERIF_TRACE)

CONSTANTS NSMaxNodes, NSMaxEdges,     \* size bounds for the layer-3 predictions (cost of evaluating the models in TLC)
          CBMaxNodes, CBMaxEdges, POMaxNodes, WMMaxNodes, WMMaxEdges,
          BKMaxNodes, NPMaxAux            \* network-simplex positioner: bound on the nodes of the auxiliary graph
VARIABLES l, call, prev, cnt,
          xacc,     \* crossings of the orders recorded so far for the components of the current call
          out       \* the layout the collect loop of autolayout.go must return for the components recorded so far:
                    \* [nodes |-> seq of <<i, v, x, y, w, h>>, edges |-> seq of <<f, t, ahs, pts>>, shift, exact]
pvars == <<l, call, prev, cnt, xacc, out>>
NoOut == [nodes |-> <<>>, edges |-> <<>>, shift |-> 0, exact |-> 1]
NoCall == [ev |-> "None"]
NoSnap == [st |-> -1]

PInit == l = 1 /\ call = NoCall /\ prev = NoSnap /\ xacc = 0 /\ out = NoOut
         /\ cnt = [calls |-> 0, stages |-> 0, drift |-> 0, components |-> 0, l3predictions |-> 0]
IsEvent(e) == l <= Len(Trace) /\ Trace[l].ev = e /\ l' = l + 1
Rec == Trace[l]
Final == IF l' = Len(Trace) + 1 THEN PrintT("STATS " \o ToJson(cnt')) ELSE TRUE

Snap(r) == [st |-> r.st, comp |-> r.comp, nodes |-> r.nodes, edges |-> r.edges, layers |-> r.layers, lh |-> r.lh, exact |-> r.exact,
            inl |-> r.inl, outl |-> r.outl, pts |-> r.pts, cors |-> r.cors, corsok |-> r.corsok]

\* ---- layer 3 bound to the code: the network-simplex model predicts the layer of every node exactly.
\* The model runs on the recorded edge list and the recorded in/out lists of every node (their order is what phase 1 left).
NSApplies(c, a, s) == /\ c.p2 = "ns" /\ Len(a.nodes) >= 2 /\ Len(a.nodes) <= NSMaxNodes /\ Len(a.edges) <= NSMaxEdges
                      /\ [i \in DOMAIN a.nodes |-> a.nodes[i][1]] = [i \in DOMAIN s.nodes |-> s.nodes[i][1]]
IndexOf(a, ref) == CHOOSE k \in DOMAIN a.nodes : a.nodes[k][1] = ref
ISqrtFloor(n) == CHOOSE k \in 0..n : k * k <= n /\ (k + 1) * (k + 1) > n
NSPredicted(c, a) ==
    LET k == Len(a.nodes)
        ies == [i \in DOMAIN a.edges |-> <<IndexOf(a, a.edges[i][1]), IndexOf(a, a.edges[i][2])>>]
        thor == IF c.thor < 0 THEN 28 ELSE c.thor
    IN RunNS([p |-> ies, w |-> [i \in DOMAIN ies |-> 1], d |-> [i \in DOMAIN ies |-> 1], inl |-> a.inl, outl |-> a.outl], k, thor * ISqrtFloor(k))
NSDrift(c, a, s) ==
    IF ~NSApplies(c, a, s) THEN {}
    ELSE LET st == NSPredicted(c, a) IN
         IF st.phase # "done" THEN {"L3_NetSimplexModelDidNotFinish"}
         ELSE If([i \in DOMAIN s.nodes |-> s.nodes[i][3]] = [i \in DOMAIN s.nodes |-> st.rank[i]], "L3_NetSimplexLayersAsModelled")

\* the longest-path layerer: the layers are those of the memoised search (LongestPathOps), whatever the visit order
LP == INSTANCE LongestPathOps
LPApplies(c, a, s) == /\ c.p2 = "lp" /\ Len(a.nodes) >= 2 /\ Len(a.nodes) <= CBMaxNodes /\ Len(a.edges) <= CBMaxEdges
                      /\ [i \in DOMAIN a.nodes |-> a.nodes[i][1]] = [i \in DOMAIN s.nodes |-> s.nodes[i][1]]
LPDrift(c, a, s) ==
    IF ~LPApplies(c, a, s) THEN {}
    ELSE LET k == Len(a.nodes)
             ies == [i \in DOMAIN a.edges |-> <<IndexOf(a, a.edges[i][1]), IndexOf(a, a.edges[i][2])>>]
             lay == LP!LPLayers([p |-> ies, d |-> [i \in DOMAIN ies |-> 1], outl |-> a.outl], k, [n \in 1..k |-> n])
         IN If([i \in DOMAIN s.nodes |-> s.nodes[i][3]] = lay, "L3_LongestPathLayersAsModelled")

\* ---- layer 3 bound to the code: the phase-1 model predicts every edge (end points, reversed flag) exactly
CB == INSTANCE CycleBreakOps
CBApplies(c, a, s) == c.p1 \in {"greedy", "dfs", "dfsrand", "randdfs"} /\ Len(a.nodes) <= CBMaxNodes /\ Len(a.edges) <= CBMaxEdges /\ Len(a.edges) >= 1
                      /\ Len(s.edges) = Len(a.edges)
CBPredicted(c, a) ==
    LET k == Len(a.nodes)
        prs == [i \in DOMAIN a.edges |-> <<IndexOf(a, a.edges[i][1]), IndexOf(a, a.edges[i][2])>>]
    IN CB!BreakCycles(k, CB!MkGraph(k, prs), IF c.p1 = "greedy" THEN "greedy" ELSE "dfs")    \* the greedy node-choice option does not concern the depth-first breaker
CBDrift(c, a, s) ==
    IF ~CBApplies(c, a, s) THEN {}
    ELSE LET R == CBPredicted(c, a) IN
         If(\A i \in DOMAIN s.edges : /\ IndexOf(a, s.edges[i][1]) = R.es[i].f /\ IndexOf(a, s.edges[i][2]) = R.es[i].t
                                       /\ s.edges[i][3] = R.es[i].rev, "L3_CycleBreakAsModelled")
         \* ... and the order of every node's in- and out-list after the in-place reversals
         \cup If(\A n \in DOMAIN s.nodes : s.inl[n] = R.inl[n] /\ s.outl[n] = R.outl[n], "L3_EdgeListsAsModelled")

\* ---- layer 3 bound to the code: breakLongEdges (phase 3) is deterministic - helper nodes are created while the loop
\* runs over the GROWING edge list, so a fragment that is still long is broken again when its turn comes.
\* B = [nodes |-> seq of <<ref, virt, layer>>, edges |-> seq of <<from, to, rev>>, inl, outl |-> per node position, nv]
BLayer(B, ref) == B.nodes[CHOOSE k \in DOMAIN B.nodes : B.nodes[k][1] = ref][3]
BIndex(B, ref) == CHOOSE k \in DOMAIN B.nodes : B.nodes[k][1] = ref
RECURSIVE BreakAll(_, _)
BreakAll(B, i) ==
    IF i > Len(B.edges) THEN B
    ELSE LET e == B.edges[i] IN
         IF BLayer(B, e[2]) - BLayer(B, e[1]) > 1
         THEN LET v == -(B.nv + 1)
                  f == Len(B.edges) + 1
                  to == BIndex(B, e[2])
                  B1 == [nodes |-> Append(B.nodes, <<v, 1, BLayer(B, e[1]) + 1>>),
                         edges |-> Append([B.edges EXCEPT ![i] = <<e[1], v, e[3]>>], <<v, e[2], e[3]>>),
                         \* the fragment takes the place of e in the in-list of the old target; the helper node gets <<e>> and <<f>>
                         inl |-> Append([B.inl EXCEPT ![to] = [k \in DOMAIN @ |-> IF @[k] = i THEN f ELSE @[k]]], <<i>>),
                         outl |-> Append(B.outl, <<f>>),
                         nv |-> B.nv + 1]
              IN BreakAll(B1, i + 1)
         ELSE BreakAll(B, i + 1)
BLApplies(c, a, s) == /\ c.p3 # "noop" /\ Len(a.nodes) >= 2 /\ Len(a.layers) > 1 /\ Len(a.nodes) <= POMaxNodes
                      /\ \A i \in DOMAIN a.edges : LayerOfRef(a, a.edges[i][2]) - LayerOfRef(a, a.edges[i][1]) >= 1
BLDrift(c, a, s) ==
    IF ~BLApplies(c, a, s) THEN {}
    ELSE LET B == BreakAll([nodes |-> [k \in DOMAIN a.nodes |-> <<a.nodes[k][1], a.nodes[k][2], a.nodes[k][3]>>],
                            edges |-> [k \in DOMAIN a.edges |-> <<a.edges[k][1], a.edges[k][2], a.edges[k][3]>>],
                            inl |-> a.inl, outl |-> a.outl, nv |-> 0], 1)
         IN If(B.nodes = [k \in DOMAIN s.nodes |-> <<s.nodes[k][1], s.nodes[k][2], s.nodes[k][3]>>], "L3_HelperNodesAsModelled")
            \cup If(B.edges = [k \in DOMAIN s.edges |-> <<s.edges[k][1], s.edges[k][2], s.edges[k][3]>>], "L3_FragmentsAsModelled")
            \cup If(B.inl = s.inl /\ B.outl = s.outl, "L3_EdgeListsAfterBreakingAsModelled")

\* ---- layer 3 bound to the code: the weighted-median ordering predicts every in-layer position exactly
WM == INSTANCE WMedianOps
WMGraph(s) ==
    [k |-> Len(s.nodes), nl |-> Len(s.layers),
     layer |-> [i \in DOMAIN s.nodes |-> s.nodes[i][3]],
     ef |-> [i \in DOMAIN s.edges |-> IndexOf(s, s.edges[i][1])], et |-> [i \in DOMAIN s.edges |-> IndexOf(s, s.edges[i][2])],
     inl |-> s.inl, outl |-> s.outl]
WMApplies(c, a, s) == /\ c.p3 # "noop" /\ BLApplies(c, a, s) /\ Len(s.nodes) <= WMMaxNodes /\ Len(s.edges) <= WMMaxEdges
                      /\ \A i \in DOMAIN s.edges : LayerOfRef(s, s.edges[i][2]) - LayerOfRef(s, s.edges[i][1]) = 1
WMDrift(c, a, s) ==
    IF ~WMApplies(c, a, s) THEN {}
    ELSE LET R == WM!WMedian(WMGraph(s), [i \in DOMAIN s.nodes |-> 0], 24)
         IN If([i \in DOMAIN s.nodes |-> s.nodes[i][4]] = R.pos, "L3_OrderAsModelled")

\* ---- layer 3 bound to the code: the positioning models predict every coordinate exactly (x in half units)
PO == INSTANCE PositionOps
PosGraph(a) ==
    [k |-> Len(a.nodes),
     w |-> [i \in DOMAIN a.nodes |-> a.nodes[i][7]], h |-> [i \in DOMAIN a.nodes |-> a.nodes[i][8]],
     virt |-> [i \in DOMAIN a.nodes |-> a.nodes[i][2]], layer |-> [i \in DOMAIN a.nodes |-> a.nodes[i][3]],
     pos |-> [i \in DOMAIN a.nodes |-> a.nodes[i][4]],
     ef |-> [i \in DOMAIN a.edges |-> IndexOf(a, a.edges[i][1])], et |-> [i \in DOMAIN a.edges |-> IndexOf(a, a.edges[i][2])],
     inl |-> a.inl, outl |-> a.outl,
     layers |-> [ly \in DOMAIN a.layers |-> [j \in DOMAIN a.layers[ly] |-> IndexOf(a, a.layers[ly][j])]]]
POApplies(c, a, s) == /\ c.p4 \in {"valign", "pack", "sink"} /\ Len(a.nodes) >= 2 /\ Len(a.nodes) <= POMaxNodes
                      /\ s.exact = 1 /\ Len(s.nodes) = Len(a.nodes)
PODrift(c, a, s) ==
    IF ~POApplies(c, a, s) THEN {}
    ELSE LET G == PosGraph(a)
             ns == NSq(c)
             sink == IF c.p4 = "sink" THEN PO!SinkColoringX2(G, ns) ELSE [x |-> <<>>, finished |-> TRUE]
             x2 == CASE c.p4 = "valign" -> PO!VAlignX2(G, ns) [] c.p4 = "pack" -> PO!PackRightX2(G, ns) [] OTHER -> sink.x
         IN (IF sink.finished THEN {} ELSE {"L3_PlaceBlockModelDidNotFinish"})
            \cup If(\A i \in DOMAIN s.nodes : 2 * s.nodes[i][5] = x2[i], "L3_XAsModelled_" \o c.p4)
            \cup If(\A i \in DOMAIN s.nodes : s.nodes[i][6] = PO!YOfLayer(G, Q * c.ls, s.nodes[i][3] + 1), "L3_YAsModelled")

\* the network-simplex positioner: auxiliary graph, weighted network simplex with horizontal balancing, x from the layers
NPApplies(c, a, s) == /\ c.p4 = "nspos" /\ Len(a.nodes) + Len(a.edges) <= NPMaxAux
                      /\ s.exact = 1 /\ Len(s.nodes) = Len(a.nodes)
NPDrift(c, a, s) ==
    IF ~NPApplies(c, a, s) THEN {}
    ELSE LET G == PosGraph(a)
             thor == IF c.thor < 0 THEN 28 ELSE c.thor
             R == NSPosRun(G, NSq(c), 4, Q, thor)
         IN IF R.phase # "done" THEN {"L3_NSPositionerModelDidNotFinish"}
            ELSE LET x2 == XFromRanks(G, R.rank, Q) IN
                 If(\A i \in DOMAIN s.nodes : 2 * s.nodes[i][5] = x2[i], "L3_XAsModelled_nspos")
                 \cup If(\A i \in DOMAIN s.nodes : s.nodes[i][6] = PO!YOfLayer(G, Q * c.ls, s.nodes[i][3] + 1), "L3_YAsModelled")

\* the Brandes-Koepf positioner (balanced or one forced layout): every x exactly
BK == INSTANCE BKOps
BKApplies(c, a, s) == /\ c.p4 \in {"bk", "bk0", "bk1", "bk2", "bk3"} /\ Len(a.nodes) >= 2 /\ Len(a.nodes) <= BKMaxNodes
                      /\ s.exact = 1 /\ Len(s.nodes) = Len(a.nodes)
BKDrift(c, a, s) ==
    IF ~BKApplies(c, a, s) THEN {}
    ELSE LET G == PosGraph(a)
             forced == CASE c.p4 = "bk0" -> 0 [] c.p4 = "bk1" -> 1 [] c.p4 = "bk2" -> 2 [] c.p4 = "bk3" -> 3 [] OTHER -> -1
             x2 == BK!BKX2(G, NSq(c), forced)
         IN If(\A i \in DOMAIN s.nodes : 2 * s.nodes[i][5] = x2[i], "L3_XAsModelled_" \o c.p4)
            \cup If(\A i \in DOMAIN s.nodes : s.nodes[i][6] = PO!YOfLayer(G, Q * c.ls, s.nodes[i][3] + 1), "L3_YAsModelled")

\* ---- layer 3 bound to the code: the routers' points are predicted exactly (half units) from the positioned graph
RO == INSTANCE RouteOps
RouteGraph(a) ==
    [x |-> [i \in DOMAIN a.nodes |-> a.nodes[i][5]], y |-> [i \in DOMAIN a.nodes |-> a.nodes[i][6]],
     w |-> [i \in DOMAIN a.nodes |-> a.nodes[i][7]], h |-> [i \in DOMAIN a.nodes |-> a.nodes[i][8]],
     virt |-> [i \in DOMAIN a.nodes |-> a.nodes[i][2]], layer |-> [i \in DOMAIN a.nodes |-> a.nodes[i][3]],
     ef |-> [i \in DOMAIN a.edges |-> IndexOf(a, a.edges[i][1])], et |-> [i \in DOMAIN a.edges |-> IndexOf(a, a.edges[i][2])],
     lh |-> a.lh]
ROApplies(c, a, s) == /\ c.p5 \in {"straight", "poly", "ortho"} /\ Len(a.nodes) >= 2 /\ Len(a.nodes) <= POMaxNodes
                      /\ a.exact = 1 /\ s.exact = 1 /\ "pts" \in DOMAIN s
                      /\ \A i \in DOMAIN a.edges : LayerOfRef(a, a.edges[i][1]) < LayerOfRef(a, a.edges[i][2])   \* a feasible, proper layering
Heads(a) == SelectSeq([i \in DOMAIN a.edges |-> i], LAMBDA i : a.edges[i][1] > 0)
PairUp(q) == [j \in 1..(Len(q) \div 2) |-> <<q[2 * j - 1], q[2 * j]>>]
RODrift(c, a, s) ==
    IF ~ROApplies(c, a, s) THEN {}
    ELSE LET G == RouteGraph(a)
             hs == Heads(a)
         IN If(Len(hs) = Len(s.edges) /\ Len(s.pts) = Len(s.edges), "L3_HeadEdgesKeepTheirOrder")
            \cup If((Len(hs) = Len(s.edges) /\ Len(s.pts) = Len(s.edges)) =>
                     \A j \in DOMAIN s.edges :
                        LET want == RO!Route2(G, hs[j], c.p5, Q * c.ls)
                            got == PairUp(s.pts[j])
                        IN Len(got) = Len(want) /\ \A m \in DOMAIN got : 2 * got[m][1] = want[m][1] /\ 2 * got[m][2] = want[m][2],
                     "L3_RoutePointsAsModelled_" \o c.p5)

\* the spline router's corridors: what phase 5 hands to geom.Shortest for every routed edge (logged through the monitor, recorded
\* with the stage-5 snapshot in sixths of a unit) is what RouteOps!BuildRects6 builds from the positioned graph of stage 4
SplineGraph(a) == [RouteGraph(a) EXCEPT !.lh = a.lh] @@
    [pos |-> [i \in DOMAIN a.nodes |-> a.nodes[i][4]],
     layers |-> [ly \in DOMAIN a.layers |-> [j \in DOMAIN a.layers[ly] |-> IndexOf(a, a.layers[ly][j])]]]
RECURSIVE FlattenRects(_)
FlattenRects(rs) == IF rs = <<>> THEN <<>> ELSE Head(rs) \o FlattenRects(Tail(rs))
SPApplies(c, a, s) == /\ c.p5 = "splines" /\ s.corsok = 1 /\ Len(s.cors) > 0 /\ a.exact = 1
                      /\ Len(a.nodes) >= 2 /\ Len(a.nodes) <= POMaxNodes
                      /\ \A i \in DOMAIN a.edges : LayerOfRef(a, a.edges[i][1]) < LayerOfRef(a, a.edges[i][2])
SPDrift(c, a, s) ==
    IF ~SPApplies(c, a, s) THEN {}
    ELSE LET G == SplineGraph(a)
             hs == Heads(a)
             want(j) == LET rn == RO!RouteNodes(G, hs[j])
                            rs == RO!BuildRects6(G, rn, 2, 10 * Q)
                        IN IF \E k \in DOMAIN rs : Len(rs[k]) # 4 THEN <<>>
                           ELSE <<Q * Len(rs)>> \o FlattenRects(rs) \o RO!SplineStart6(G, rn) \o RO!SplineEnd6(G, rn)
         IN If(Len(s.cors) = Len(hs) /\ \A j \in DOMAIN s.cors : [k \in DOMAIN s.cors[j] |-> Q * s.cors[j][k]] = want(j),
               "L3_SplineCorridorsAsModelled")

\* the contract of the stage being entered, between the previous snapshot and the recorded one
Broken(c, a, s) ==
    CASE s.st = 0 -> (IF a.st \in {-1, 6} THEN {} ELSE {"StageOrder"}) \cup Contract0(c, s.comp, s)
      [] s.st = 1 -> (IF a.st = 0 THEN Contract1(c, a, s) \cup CBDrift(c, a, s) ELSE {"StageOrder"})
      [] s.st = 2 -> (IF a.st = 1 THEN Contract2(c, a, s) \cup NSDrift(c, a, s) \cup LPDrift(c, a, s) ELSE {"StageOrder"})
      [] s.st = 3 -> (IF a.st = 2 THEN Contract3(c, a, s) \cup BLDrift(c, a, s) \cup WMDrift(c, a, s) ELSE {"StageOrder"})
      [] s.st = 4 -> (IF a.st = 3 THEN Contract4(c, a, s) \cup PODrift(c, a, s) \cup NPDrift(c, a, s) \cup BKDrift(c, a, s) ELSE {"StageOrder"})
      [] s.st = 5 -> (IF a.st = 4 THEN Contract5(c, a, s) \cup RODrift(c, a, s) \cup SPDrift(c, a, s) ELSE {"StageOrder"})
      [] s.st = 6 -> (IF a.st = 5 THEN Contract6(c, s.comp, a, s) ELSE {"StageOrder"})
      [] OTHER -> {"UnknownStage"}

\* the crossing counter as modelled: between two adjacent layers every distinct pair of (upper position, lower
\* position) counts once (the radix-sort matrix holds one item per cell), strict inversions only
OrderCrossings(s) ==
    LET segs(ly) == {<<PosOfRef(s, s.edges[i][1]), PosOfRef(s, s.edges[i][2])>> :
                        i \in {j \in DOMAIN s.edges : LayerOfRef(s, s.edges[j][1]) = ly - 1 /\ LayerOfRef(s, s.edges[j][2]) = ly}}
        cross(ly) == Cardinality({p \in segs(ly) \X segs(ly) : p[1][1] < p[2][1] /\ p[1][2] > p[2][2]})
    IN SumSeq([ly \in 1..(Len(s.layers) - 1) |-> cross(ly)])
\* the collect loop: nodes (helper nodes only on request) and edges of the finished component, shifted right by the
\* running shift; the shift then grows by the rightmost "last node of a layer" plus NodeSpacing
Collect(c, o, s) ==
    LET keep == SelectSeq(s.nodes, LAMBDA n : n[2] = 0 \/ c.virt = 1)
        ns == [k \in DOMAIN keep |-> <<IF keep[k][1] > 0 THEN keep[k][1] ELSE 0, keep[k][2], keep[k][5] + o.shift, keep[k][6], keep[k][7], keep[k][8]>>]
        es == [k \in DOMAIN s.edges |-> <<s.edges[k][1], s.edges[k][2], s.edges[k][5],
                                           [m \in 1..(Len(s.pts[k]) \div 2) |-> <<s.pts[k][2 * m - 1] + o.shift, s.pts[k][2 * m]>>]>>]
        lasts == {NodeOf(s, s.layers[ly][Len(s.layers[ly])]) : ly \in {m \in DOMAIN s.layers : s.layers[m] # <<>>}}
        right == Max({0} \cup {n[5] + n[7] : n \in lasts})
    IN [nodes |-> o.nodes \o ns, edges |-> o.edges \o es, shift |-> o.shift + right + NSq(c),
        exact |-> IF s.exact = 1 THEN o.exact ELSE 0]
TraceCall == /\ IsEvent("Call") /\ call' = Rec /\ prev' = NoSnap /\ xacc' = 0 /\ out' = NoOut
             /\ cnt' = [cnt EXCEPT !.calls = @ + 1] /\ Final
\* the Pipeline action of stage Rec.st: its guard is the phase contract; the Reject twin reports the drift
TraceStage ==
    /\ IsEvent("Stage") /\ call # NoCall
    /\ LET s == Snap(Rec)
           B == Broken(call, prev, s)
       IN /\ (IF B = {} THEN TRUE ELSE PrintT("DRIFT " \o ToJson(<<call.case, s.comp, s.st, B>>)))
          /\ prev' = s
          /\ xacc' = IF s.st = 3 /\ Len(s.layers) > 1 /\ Len(s.nodes) > 1 THEN xacc + OrderCrossings(s) ELSE xacc
          /\ out' = IF s.st = 6 THEN Collect(call, out, s) ELSE out
          /\ cnt' = [cnt EXCEPT !.stages = @ + 1, !.drift = @ + (IF B = {} THEN 0 ELSE 1),
                                !.components = @ + (IF s.st = 0 THEN 1 ELSE 0),
                                !.l3predictions = @ + (IF s.st = 2 /\ prev.st = 1 /\ NSApplies(call, prev, s) THEN 1 ELSE 0)
                                                    + (IF s.st = 2 /\ prev.st = 1 /\ LPApplies(call, prev, s) THEN 1 ELSE 0)
                                                    + (IF s.st = 1 /\ prev.st = 0 /\ CBApplies(call, prev, s) THEN 1 ELSE 0)
                                                    + (IF s.st = 4 /\ prev.st = 3 /\ POApplies(call, prev, s) THEN 1 ELSE 0)
                                                    + (IF s.st = 4 /\ prev.st = 3 /\ NPApplies(call, prev, s) THEN 1 ELSE 0)
                                                    + (IF s.st = 4 /\ prev.st = 3 /\ BKApplies(call, prev, s) THEN 1 ELSE 0)
                                                    + (IF s.st = 3 /\ prev.st = 2 /\ BLApplies(call, prev, s) THEN 1 ELSE 0)
                                                    + (IF s.st = 3 /\ prev.st = 2 /\ WMApplies(call, prev, s) THEN 1 ELSE 0)
                                                    + (IF s.st = 5 /\ prev.st = 4 /\ ROApplies(call, prev, s) THEN 1 ELSE 0)
                                                    + (IF s.st = 5 /\ prev.st = 4 /\ SPApplies(call, prev, s) THEN 1 ELSE 0)]
    /\ UNCHANGED call /\ Final
TraceEnd == /\ (IsEvent("Return") \/ IsEvent("Panic") \/ IsEvent("Abort"))
            \* the crossing number reported through the monitor is the crossing number of the recorded orders
            /\ LET bad == Rec.ev = "Return" /\ call.mon = 1 /\ call.p3 # "noop" /\ SumSeq(Rec.cross) # xacc
                   \* the returned layout is what the collect loop makes of the recorded components
                   judged == Rec.ev = "Return" /\ out.exact = 1 /\ Rec.exact = 1
                   badn == judged /\ [k \in DOMAIN Rec.nodes |-> <<Rec.nodes[k].i, Rec.nodes[k].v, Rec.nodes[k].x, Rec.nodes[k].y, Rec.nodes[k].w, Rec.nodes[k].h>>] # out.nodes
                   bade == judged /\ [k \in DOMAIN Rec.oe |-> <<Rec.oe[k].f, Rec.oe[k].t, Rec.oe[k].ahs, Rec.oe[k].pts>>] # out.edges
                   B == (IF bad THEN {"L3_ReportedCrossingsAreOrderCrossings"} ELSE {})
                        \cup (IF badn THEN {"L2_CollectedNodesAsModelled"} ELSE {}) \cup (IF bade THEN {"L2_CollectedEdgesAsModelled"} ELSE {})
               IN
               /\ (IF B # {} THEN PrintT("DRIFT " \o ToJson(<<call.case, 0, 7, B>>)) ELSE TRUE)
               /\ cnt' = [cnt EXCEPT !.drift = @ + (IF B # {} THEN 1 ELSE 0),
                                     !.l3predictions = @ + (IF Rec.ev = "Return" /\ call.mon = 1 THEN 1 ELSE 0) + (IF judged THEN 1 ELSE 0)]
            /\ call' = NoCall /\ prev' = NoSnap /\ xacc' = 0 /\ out' = NoOut /\ Final
PNext == TraceCall \/ TraceStage \/ TraceEnd
PSpec == PInit /\ [][PNext]_pvars
TraceAccepted == TLCGet("stats").diameter - 1 = Len(Trace)
=============================================================================
