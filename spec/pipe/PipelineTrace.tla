--------------------------- MODULE PipelineTrace ----------------------------
(***************************************************************************)
(* Trace validation of the stage snapshots emitted by hook H1 (build tag   *)
(* verif) against the layer-2 specification Pipeline.tla.                  *)
(*                                                                         *)
(* Trace lines: Call, then for every connected component the seven Stage   *)
(* records 0..6 in pipeline order, then Return / Panic / Abort.  Each      *)
(* Stage record is consumed by the Pipeline action of that stage, whose    *)
(* guard is the phase contract between the previous snapshot and this one. *)
(* A snapshot the contract does not allow is reported as a DRIFT line      *)
(* (rule 3 of DESIGN.md: drift is a diagnostic, never a verdict - the      *)
(* verdicts come from layer 1) and the replay goes on from the recorded    *)
(* state, so the rest of the trace is still checked.                       *)
(***************************************************************************)
EXTENDS PipelineOps, NetSimplexOps, Json, IOUtils

Trace == ndJsonDeserialize(IOEnv.VERIF_TRACE)

CONSTANTS NSMaxNodes, NSMaxEdges      \* size bound for the layer-3 prediction (cost of evaluating the model in TLC)
VARIABLES l, call, prev, cnt
pvars == <<l, call, prev, cnt>>
NoCall == [ev |-> "None"]
NoSnap == [st |-> -1]

PInit == l = 1 /\ call = NoCall /\ prev = NoSnap
         /\ cnt = [calls |-> 0, stages |-> 0, drift |-> 0, components |-> 0, l3predictions |-> 0]
IsEvent(e) == l <= Len(Trace) /\ Trace[l].ev = e /\ l' = l + 1
Rec == Trace[l]
Final == IF l' = Len(Trace) + 1 THEN PrintT("STATS " \o ToJson(cnt')) ELSE TRUE

Snap(r) == [st |-> r.st, comp |-> r.comp, nodes |-> r.nodes, edges |-> r.edges, layers |-> r.layers, lh |-> r.lh, exact |-> r.exact]

\* ---- layer 3 bound to the code: the network-simplex model predicts the layer of every node exactly.
\* Applies to components on which phase 1 reversed nothing (the model's In/Out lists are in edge-list order then).
NSApplies(c, a, s) == /\ c.p2 = "ns" /\ Len(a.nodes) >= 2 /\ Len(a.nodes) <= NSMaxNodes /\ Len(a.edges) <= NSMaxEdges
                      /\ \A i \in DOMAIN a.edges : a.edges[i][3] = 0
                      /\ [i \in DOMAIN a.nodes |-> a.nodes[i][1]] = [i \in DOMAIN s.nodes |-> s.nodes[i][1]]
IndexOf(a, ref) == CHOOSE k \in DOMAIN a.nodes : a.nodes[k][1] = ref
ISqrtFloor(n) == CHOOSE k \in 0..n : k * k <= n /\ (k + 1) * (k + 1) > n
NSPredicted(c, a) ==
    LET k == Len(a.nodes)
        ies == [i \in DOMAIN a.edges |-> <<IndexOf(a, a.edges[i][1]), IndexOf(a, a.edges[i][2])>>]
        thor == IF c.thor < 0 THEN 28 ELSE c.thor
    IN RunNS(ies, k, thor * ISqrtFloor(k))
NSDrift(c, a, s) ==
    IF ~NSApplies(c, a, s) THEN {}
    ELSE LET st == NSPredicted(c, a) IN
         IF st.phase # "done" THEN {"L3_NetSimplexModelDidNotFinish"}
         ELSE If([i \in DOMAIN s.nodes |-> s.nodes[i][3]] = [i \in DOMAIN s.nodes |-> st.rank[i]], "L3_NetSimplexLayersAsModelled")

\* the contract of the stage being entered, between the previous snapshot and the recorded one
Broken(c, a, s) ==
    CASE s.st = 0 -> (IF a.st \in {-1, 6} THEN {} ELSE {"StageOrder"}) \cup Contract0(c, s.comp, s)
      [] s.st = 1 -> (IF a.st = 0 THEN Contract1(c, a, s) ELSE {"StageOrder"})
      [] s.st = 2 -> (IF a.st = 1 THEN Contract2(c, a, s) \cup NSDrift(c, a, s) ELSE {"StageOrder"})
      [] s.st = 3 -> (IF a.st = 2 THEN Contract3(c, a, s) ELSE {"StageOrder"})
      [] s.st = 4 -> (IF a.st = 3 THEN Contract4(c, a, s) ELSE {"StageOrder"})
      [] s.st = 5 -> (IF a.st = 4 THEN Contract5(c, a, s) ELSE {"StageOrder"})
      [] s.st = 6 -> (IF a.st = 5 THEN Contract6(c, s.comp, a, s) ELSE {"StageOrder"})
      [] OTHER -> {"UnknownStage"}

TraceCall == /\ IsEvent("Call") /\ call' = Rec /\ prev' = NoSnap
             /\ cnt' = [cnt EXCEPT !.calls = @ + 1] /\ Final
\* the Pipeline action of stage Rec.st: its guard is the phase contract; the Reject twin reports the drift
TraceStage ==
    /\ IsEvent("Stage") /\ call # NoCall
    /\ LET s == Snap(Rec)
           B == Broken(call, prev, s)
       IN /\ (IF B = {} THEN TRUE ELSE PrintT("DRIFT " \o ToJson(<<call.case, s.comp, s.st, B>>)))
          /\ prev' = s
          /\ cnt' = [cnt EXCEPT !.stages = @ + 1, !.drift = @ + (IF B = {} THEN 0 ELSE 1),
                                !.components = @ + (IF s.st = 0 THEN 1 ELSE 0),
                                !.l3predictions = @ + (IF s.st = 2 /\ prev.st = 1 /\ NSApplies(call, prev, s) THEN 1 ELSE 0)]
    /\ UNCHANGED call /\ Final
TraceEnd == /\ (IsEvent("Return") \/ IsEvent("Panic") \/ IsEvent("Abort"))
            /\ call' = NoCall /\ prev' = NoSnap /\ UNCHANGED cnt /\ Final
PNext == TraceCall \/ TraceStage \/ TraceEnd
PSpec == PInit /\ [][PNext]_pvars
TraceAccepted == TLCGet("stats").diameter - 1 = Len(Trace)
=============================================================================
