--------------------------- MODULE PipelineTrace ----------------------------
(***************************************************************************)
(* Trace validation of the stage snapshots emitted by hook H1 (build tag   *)
(* verif) against the layer-2 specification Pipeline.tla.                  *)
(*                                                                         *)
(* Trace lines: Call, then for every connected component the seven Stage   *)
(* records 0..6 in pipeline order, then Return / Panic / Abort.  Each      *)
(* Stage record is consumed by the Pipeline action of that stage, whose    *)
(* guard is the phase contract between the previous snapshot and this one. *)
(* A snapshot the contract does not allow is reported as a DRIFT line      *)
(* (rule 3 of DESIGN.md: drift is a diagnostic, never a verdict - the      *)
(* verdicts come from layer 1) and the replay goes on from the recorded    *)
(* state, so the rest of the trace is still checked.                       *)
(***************************************************************************)
EXTENDS PipelineOps, NetSimplexOps, Json, IOUtils

Trace == ndJsonDeserialize(IOEnv.VERIF_TRACE)

CONSTANTS NSMaxNodes, NSMaxEdges,     \* size bounds for the layer-3 predictions (cost of evaluating the models in TLC)
          CBMaxNodes, CBMaxEdges, POMaxNodes
VARIABLES l, call, prev, cnt
pvars == <<l, call, prev, cnt>>
NoCall == [ev |-> "None"]
NoSnap == [st |-> -1]

PInit == l = 1 /\ call = NoCall /\ prev = NoSnap
         /\ cnt = [calls |-> 0, stages |-> 0, drift |-> 0, components |-> 0, l3predictions |-> 0]
IsEvent(e) == l <= Len(Trace) /\ Trace[l].ev = e /\ l' = l + 1
Rec == Trace[l]
Final == IF l' = Len(Trace) + 1 THEN PrintT("STATS " \o ToJson(cnt')) ELSE TRUE

Snap(r) == [st |-> r.st, comp |-> r.comp, nodes |-> r.nodes, edges |-> r.edges, layers |-> r.layers, lh |-> r.lh, exact |-> r.exact,
            inl |-> r.inl, outl |-> r.outl]

\* ---- layer 3 bound to the code: the network-simplex model predicts the layer of every node exactly.
\* The model runs on the recorded edge list and the recorded in/out lists of every node (their order is what phase 1 left).
NSApplies(c, a, s) == /\ c.p2 = "ns" /\ Len(a.nodes) >= 2 /\ Len(a.nodes) <= NSMaxNodes /\ Len(a.edges) <= NSMaxEdges
                      /\ [i \in DOMAIN a.nodes |-> a.nodes[i][1]] = [i \in DOMAIN s.nodes |-> s.nodes[i][1]]
IndexOf(a, ref) == CHOOSE k \in DOMAIN a.nodes : a.nodes[k][1] = ref
ISqrtFloor(n) == CHOOSE k \in 0..n : k * k <= n /\ (k + 1) * (k + 1) > n
NSPredicted(c, a) ==
    LET k == Len(a.nodes)
        ies == [i \in DOMAIN a.edges |-> <<IndexOf(a, a.edges[i][1]), IndexOf(a, a.edges[i][2])>>]
        thor == IF c.thor < 0 THEN 28 ELSE c.thor
    IN RunNS([p |-> ies, inl |-> a.inl, outl |-> a.outl], k, thor * ISqrtFloor(k))
NSDrift(c, a, s) ==
    IF ~NSApplies(c, a, s) THEN {}
    ELSE LET st == NSPredicted(c, a) IN
         IF st.phase # "done" THEN {"L3_NetSimplexModelDidNotFinish"}
         ELSE If([i \in DOMAIN s.nodes |-> s.nodes[i][3]] = [i \in DOMAIN s.nodes |-> st.rank[i]], "L3_NetSimplexLayersAsModelled")

\* ---- layer 3 bound to the code: the phase-1 model predicts every edge (end points, reversed flag) exactly
CB == INSTANCE CycleBreakOps
CBApplies(c, a, s) == c.p1 \in {"greedy", "dfs"} /\ Len(a.nodes) <= CBMaxNodes /\ Len(a.edges) <= CBMaxEdges /\ Len(a.edges) >= 1
                      /\ Len(s.edges) = Len(a.edges)
CBPredicted(c, a) ==
    LET k == Len(a.nodes)
        prs == [i \in DOMAIN a.edges |-> <<IndexOf(a, a.edges[i][1]), IndexOf(a, a.edges[i][2])>>]
    IN CB!BreakCycles(k, CB!MkGraph(k, prs), c.p1)
CBDrift(c, a, s) ==
    IF ~CBApplies(c, a, s) THEN {}
    ELSE LET R == CBPredicted(c, a) IN
         If(\A i \in DOMAIN s.edges : /\ IndexOf(a, s.edges[i][1]) = R.es[i].f /\ IndexOf(a, s.edges[i][2]) = R.es[i].t
                                       /\ s.edges[i][3] = R.es[i].rev, "L3_CycleBreakAsModelled")
         \* ... and the order of every node's in- and out-list after the in-place reversals
         \cup If(\A n \in DOMAIN s.nodes : s.inl[n] = R.inl[n] /\ s.outl[n] = R.outl[n], "L3_EdgeListsAsModelled")

\* ---- layer 3 bound to the code: the positioning models predict every coordinate exactly (x in half units)
PO == INSTANCE PositionOps
PosGraph(a) ==
    [k |-> Len(a.nodes),
     w |-> [i \in DOMAIN a.nodes |-> a.nodes[i][7]], h |-> [i \in DOMAIN a.nodes |-> a.nodes[i][8]],
     virt |-> [i \in DOMAIN a.nodes |-> a.nodes[i][2]], layer |-> [i \in DOMAIN a.nodes |-> a.nodes[i][3]],
     pos |-> [i \in DOMAIN a.nodes |-> a.nodes[i][4]],
     ef |-> [i \in DOMAIN a.edges |-> IndexOf(a, a.edges[i][1])], et |-> [i \in DOMAIN a.edges |-> IndexOf(a, a.edges[i][2])],
     inl |-> a.inl,
     layers |-> [ly \in DOMAIN a.layers |-> [j \in DOMAIN a.layers[ly] |-> IndexOf(a, a.layers[ly][j])]]]
POApplies(c, a, s) == /\ c.p4 \in {"valign", "pack", "sink"} /\ Len(a.nodes) >= 2 /\ Len(a.nodes) <= POMaxNodes
                      /\ s.exact = 1 /\ Len(s.nodes) = Len(a.nodes)
PODrift(c, a, s) ==
    IF ~POApplies(c, a, s) THEN {}
    ELSE LET G == PosGraph(a)
             ns == Q * c.ns
             sink == IF c.p4 = "sink" THEN PO!SinkColoringX2(G, ns) ELSE [x |-> <<>>, finished |-> TRUE]
             x2 == CASE c.p4 = "valign" -> PO!VAlignX2(G, ns) [] c.p4 = "pack" -> PO!PackRightX2(G, ns) [] OTHER -> sink.x
         IN (IF sink.finished THEN {} ELSE {"L3_PlaceBlockModelDidNotFinish"})
            \cup If(\A i \in DOMAIN s.nodes : 2 * s.nodes[i][5] = x2[i], "L3_XAsModelled_" \o c.p4)
            \cup If(\A i \in DOMAIN s.nodes : s.nodes[i][6] = PO!YOfLayer(G, Q * c.ls, s.nodes[i][3] + 1), "L3_YAsModelled")

\* the contract of the stage being entered, between the previous snapshot and the recorded one
Broken(c, a, s) ==
    CASE s.st = 0 -> (IF a.st \in {-1, 6} THEN {} ELSE {"StageOrder"}) \cup Contract0(c, s.comp, s)
      [] s.st = 1 -> (IF a.st = 0 THEN Contract1(c, a, s) \cup CBDrift(c, a, s) ELSE {"StageOrder"})
      [] s.st = 2 -> (IF a.st = 1 THEN Contract2(c, a, s) \cup NSDrift(c, a, s) ELSE {"StageOrder"})
      [] s.st = 3 -> (IF a.st = 2 THEN Contract3(c, a, s) ELSE {"StageOrder"})
      [] s.st = 4 -> (IF a.st = 3 THEN Contract4(c, a, s) \cup PODrift(c, a, s) ELSE {"StageOrder"})
      [] s.st = 5 -> (IF a.st = 4 THEN Contract5(c, a, s) ELSE {"StageOrder"})
      [] s.st = 6 -> (IF a.st = 5 THEN Contract6(c, s.comp, a, s) ELSE {"StageOrder"})
      [] OTHER -> {"UnknownStage"}

TraceCall == /\ IsEvent("Call") /\ call' = Rec /\ prev' = NoSnap
             /\ cnt' = [cnt EXCEPT !.calls = @ + 1] /\ Final
\* the Pipeline action of stage Rec.st: its guard is the phase contract; the Reject twin reports the drift
TraceStage ==
    /\ IsEvent("Stage") /\ call # NoCall
    /\ LET s == Snap(Rec)
           B == Broken(call, prev, s)
       IN /\ (IF B = {} THEN TRUE ELSE PrintT("DRIFT " \o ToJson(<<call.case, s.comp, s.st, B>>)))
          /\ prev' = s
          /\ cnt' = [cnt EXCEPT !.stages = @ + 1, !.drift = @ + (IF B = {} THEN 0 ELSE 1),
                                !.components = @ + (IF s.st = 0 THEN 1 ELSE 0),
                                !.l3predictions = @ + (IF s.st = 2 /\ prev.st = 1 /\ NSApplies(call, prev, s) THEN 1 ELSE 0)
                                                    + (IF s.st = 1 /\ prev.st = 0 /\ CBApplies(call, prev, s) THEN 1 ELSE 0)
                                                    + (IF s.st = 4 /\ prev.st = 3 /\ POApplies(call, prev, s) THEN 1 ELSE 0)]
    /\ UNCHANGED call /\ Final
TraceEnd == /\ (IsEvent("Return") \/ IsEvent("Panic") \/ IsEvent("Abort"))
            /\ call' = NoCall /\ prev' = NoSnap /\ UNCHANGED cnt /\ Final
PNext == TraceCall \/ TraceStage \/ TraceEnd
PSpec == PInit /\ [][PNext]_pvars
TraceAccepted == TLCGet("stats").diameter - 1 = Len(Trace)
=============================================================================
