----------------------------- MODULE MonitorInd -----------------------------
(***************************************************************************)
(* The sequential monitor life-cycle of Monitor.tla with integer-typed     *)
(* variables, for Apalache: CleanWhenIdle and Scoped as an INDUCTIVE       *)
(* invariant, i.e. for call histories of ANY length (TLC checks all        *)
(* histories up to 4-5 calls).                                             *)
(*   apalache-mc check --init=Init    --inv=IndInv --length=0              *)
(*   apalache-mc check --init=IndInit --inv=IndInv --length=1              *)
(* The call counter grows without bound; leak records whether an event was *)
(* ever delivered to a monitor object other than the running call's own.   *)
(***************************************************************************)
EXTENDS Integers

VARIABLES
    \* @type: Int;
    m,        \* current monitor: 0 = nil, k = the monitor object created for call k
    \* @type: Int;
    pa,       \* the prefix globals: 0 = cleared
    \* @type: Str;
    pc,       \* "idle" | "set" | "body" | "reset"
    \* @type: Int;
    call,     \* number of the running (or last) call
    \* @type: Bool;
    withMon,  \* the running call was given a monitor
    \* @type: Bool;
    ok,       \* the running call reaches the phases (FALSE: one of the two documented panics)
    \* @type: Int;
    phase,    \* phases logged so far by the running call
    \* @type: Bool;
    leak      \* an event reached a monitor object that does not belong to the running call

Phases == 5

Init == m = 0 /\ pa = 0 /\ pc = "idle" /\ call = 0 /\ withMon = FALSE /\ ok = TRUE /\ phase = 0 /\ leak = FALSE

Begin == /\ pc = "idle"
         /\ call' = call + 1 /\ pc' = "set" /\ phase' = 0
         /\ withMon' \in BOOLEAN /\ ok' \in BOOLEAN
         /\ UNCHANGED <<m, pa, leak>>
\* Set: if monitor != nil { m = monitor }
SetM == /\ pc = "set"
        /\ m' = IF withMon THEN call ELSE m
        /\ pc' = IF ok THEN "body" ELSE "reset"
        /\ UNCHANGED <<pa, call, withMon, ok, phase, leak>>
\* PrefixFor + Log: if m != nil { p, a = ...; m.Log(...) }
Body == /\ pc = "body"
        /\ pa' = IF m # 0 THEN phase + 1 ELSE pa
        /\ leak' = (leak \/ (m # 0 /\ m # call))
        /\ phase' = phase + 1
        /\ pc' = IF phase + 1 >= Phases THEN "reset" ELSE "body"
        /\ UNCHANGED <<m, call, withMon, ok>>
\* deferred Reset: if m != nil { m = nil; p = 0; a = "" }
Reset == /\ pc = "reset"
         /\ m' = 0 /\ pa' = IF m # 0 THEN 0 ELSE pa
         /\ pc' = "idle"
         /\ UNCHANGED <<call, withMon, ok, phase, leak>>
Next == Begin \/ SetM \/ Body \/ Reset

TypeOK == /\ m \in Int /\ pa \in Int /\ call \in Int /\ phase \in Int
          /\ pc \in {"idle", "set", "body", "reset"}
          /\ withMon \in BOOLEAN /\ ok \in BOOLEAN /\ leak \in BOOLEAN
Scoped == ~leak
CleanWhenIdle == pc = "idle" => m = 0 /\ pa = 0
IndInv == /\ TypeOK /\ call >= 0 /\ phase >= 0 /\ phase <= Phases
          /\ Scoped /\ CleanWhenIdle
          /\ (pc = "set" => m = 0 /\ pa = 0 /\ phase = 0)
          /\ (pc \in {"body", "reset"} => m = (IF withMon THEN call ELSE 0))
          /\ (pc \in {"body", "reset"} /\ ~withMon => pa = 0)
          /\ (pc # "idle" => call >= 1)
          /\ (pc = "body" => phase < Phases /\ ok)
IndInit == IndInv
=============================================================================
