---------------------------- MODULE MonitorTrace ----------------------------
(***************************************************************************)
(* Trace validation of call histories replayed on the real autog.Layout    *)
(* (`driver script`) against the monitor life-cycle specification.         *)
(*                                                                         *)
(* One "Step" record per Layout call of a history: whether it came with a  *)
(* monitor, how it ended, which monitor objects received events while it   *)
(* ran, and the package globals observed right after it (through the       *)
(* overlay shim).  The trace must be explained by Monitor!CallOp, the      *)
(* composition of the specification's statements for one call.  A "Call"   *)
(* record starts a new history from the initial state; rejected steps are  *)
(* reported as VIOL lines and the rest of the trace is still checked.      *)
(***************************************************************************)
EXTENDS Monitor, IOUtils

Trace == ndJsonDeserialize(IOEnv.VERIF_TRACE)

VARIABLES l, hist, cnt
tvars == <<vars, l, hist, cnt>>

TraceInit == Init /\ l = 1 /\ hist = 0 /\ cnt = [steps |-> 0, scripts |-> 0, viol |-> 0, withmon |-> 0]

IsEvent(e) == l <= Len(Trace) /\ Trace[l].ev = e /\ l' = l + 1
Rec == Trace[l]
Final == IF l' = Len(Trace) + 1 THEN PrintT("STATS " \o ToJson(cnt')) ELSE TRUE
Frame == UNCHANGED <<pc, call, script, phase, xs>>

\* a new history: the driver puts the package back into its initial state
TraceScript == /\ IsEvent("Call")
               /\ m' = 0 /\ pa' = 0 /\ delivered' = {} /\ hist' = Rec.case /\ Frame
               /\ cnt' = [cnt EXCEPT !.scripts = @ + 1]
               /\ Final

Receivers(st0, st1) == {d[1] : d \in st1.delivered \ st0.delivered}

TraceStep ==
    /\ IsEvent("Step")
    /\ LET r   == Rec
           id  == r.k
           st1 == CallOp(St, id, r.mon = 1, r.kind)
           \* what the specification determines about the recorded observation
           \* the property: the outcome is what it is without monitors, and exactly the monitors the model names received events
           ok  == /\ r.outcome = (IF r.kind = "ok" THEN "return" ELSE "panic")
                  /\ {g[1] : g \in {r.got[k] : k \in DOMAIN r.got}} = Receivers(St, st1)          \* Scoped
           \* the mechanism (layer 3, a DRIFT diagnostic): the package globals are what the model's m / pa say (CleanWhenIdle);
           \* r.p < 0: the shim could not see them in this tree
           glob == \/ r.p = -2
                   \/ /\ r.mset = (IF st1.m # 0 THEN 1 ELSE 0)
                      /\ (r.p = -1 \/ (r.p # 0 \/ r.aset # 0) = (st1.pa # 0))
       IN /\ (IF ok THEN TRUE ELSE PrintT("VIOL " \o ToJson(<<hist, {<<"C18", "MonitorLifeCycle">>}, r.k>>)))
          /\ (IF glob THEN TRUE ELSE PrintT("VIOL " \o ToJson(<<hist, {<<"C18", "L3_MonitorGlobalsAsModelled">>}, r.k>>)))
          /\ m' = st1.m /\ pa' = st1.pa /\ delivered' = st1.delivered /\ Frame /\ hist' = hist
          /\ cnt' = [cnt EXCEPT !.steps = @ + 1, !.viol = @ + (IF ok THEN 0 ELSE 1), !.withmon = @ + r.mon]
    /\ Final

TraceEnd == /\ IsEvent("Return") /\ UNCHANGED <<vars, hist, cnt>> /\ Final
\* a history that killed the worker: reported by C01's machinery, here the rest of the trace goes on
TraceAbort == /\ (IsEvent("Abort") \/ IsEvent("Panic")) /\ UNCHANGED <<vars, hist>>
              /\ PrintT("VIOL " \o ToJson(<<hist, {<<"C18", "HistoryAborted">>}, 0>>))
              /\ cnt' = [cnt EXCEPT !.viol = @ + 1] /\ Final

TraceNext == TraceScript \/ TraceStep \/ TraceEnd \/ TraceAbort
TraceSpec == TraceInit /\ [][TraceNext]_tvars
TraceAccepted == TLCGet("stats").diameter - 1 = Len(Trace)
\* the model's own invariants are evaluated on every state of the replay as well
TraceScoped == Scoped
=============================================================================
