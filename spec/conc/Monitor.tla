------------------------------- MODULE Monitor -------------------------------
(***************************************************************************)
(* The life-cycle of autog's process-wide monitor registry                 *)
(* (internal/monitor: globals m, p, a) inside autog.Layout, written like   *)
(* the code: one action per statement that touches the globals.            *)
(*                                                                         *)
(*   Layout(source, opts):   Set(opts.monitor)          -- writes m iff non-nil *)
(*                           defer Reset()                                 *)
(*                           from(source)                -- may panic (malformed edge) *)
(*                           if no nodes: panic                            *)
(*                           self-loop logging, then per phase:            *)
(*                             PrefixFor(phase)          -- reads m, writes p,a iff m # nil *)
(*                             Log(...)                  -- reads m, delivers to m *)
(*                           (deferred) Reset()          -- reads m, clears m,p,a iff m # nil *)
(*                                                                         *)
(* Two configurations share the same actions:                              *)
(*   sequential (Procs = {1}): all call histories of at most MaxCalls      *)
(*     calls, each with or without a monitor and ending normally, in the   *)
(*     empty-graph panic or in the malformed-edge panic.  Invariants:      *)
(*     Scoped, CleanWhenIdle, Complete (C18).  In generator mode every     *)
(*     complete history is printed with the delivery the model predicts    *)
(*     (spec -> code, replayed by `driver script`).                        *)
(*   concurrent (Procs = 1..K): K goroutines inside Layout at once.        *)
(*     Every access to shared state is a separate step, so TLC explores    *)
(*     all interleavings; NoRace is the absence of a state in which two    *)
(*     processes are about to access the same variable, one writing,       *)
(*     without synchronisation (there is none in the package).  Shared     *)
(*     package-level state other than the monitor globals is the constant  *)
(*     ExtraShared, generated from the code by `driver extract` (C15).     *)
(***************************************************************************)
EXTENDS Integers, Sequences, FiniteSets, TLC, Json

CONSTANTS Procs,        \* process (goroutine) ids
          MaxCalls,     \* calls per process
          Kinds,        \* subset of {"ok", "panicEmpty", "panicBadEdge"}
          MonChoice,    \* subset of BOOLEAN: whether calls may come with / without a monitor
          Phases,       \* number of PrefixFor/Log rounds modelled per call
          ExtraShared,  \* set of [name, access] records: package-level variables written (access = "W") or
                        \* only read ("R") on the Layout path besides internal/monitor's globals (extracted from the code)
          Generate      \* TRUE: print every complete sequential history (generator mode)

VARIABLES m,          \* current monitor: 0 = nil, otherwise <<proc, call>> encoded as proc * 100 + call
          pa,         \* the prefix globals p and a, abstracted to "which phase was last announced" (0 = cleared)
          pc,         \* pc[i]: control point of process i
          call,       \* call[i]: index of the running call of process i (0 when idle)
          script,     \* script[i]: the calls issued so far by process i: [mon |-> BOOLEAN, kind |-> Kinds]
          phase,      \* phase[i]: number of phases already logged by the running call
          xs,         \* index into ExtraSeq: which extra shared variable the process accesses next
          delivered   \* set of <<monitor id, receiving call id>>: an event was delivered to the monitor object of
                      \* call <<monitor id>> while call <<call id>> was the one that logged it
vars == <<m, pa, pc, call, script, phase, xs, delivered>>

Id(i, c) == i * 100 + c
Cur(i) == script[i][call[i]]
ExtraSeq == CHOOSE s \in [1..Cardinality(ExtraShared) -> ExtraShared] : \A x \in ExtraShared : \E k \in DOMAIN s : s[k] = x

-----------------------------------------------------------------------------
(* The statements of internal/monitor as pure operators over the record   *)
(* st = [m, pa, delivered]; the actions below and the trace specification *)
(* (MonitorTrace) are both built from them.                               *)
St == [m |-> m, pa |-> pa, delivered |-> delivered]
SetOp(st, id, mon)  == [st EXCEPT !.m = IF mon THEN id ELSE @]                    \* if monitor != nil { m = monitor }
PrefixOp(st, ph)    == [st EXCEPT !.pa = IF st.m # 0 THEN ph ELSE @]              \* if m != nil { p, a = ... }
LogOp(st, id)       == [st EXCEPT !.delivered = IF st.m # 0 THEN @ \cup {<<st.m, id>>} ELSE @]   \* if m != nil { m.Log(...) }
ResetOp(st)         == [st EXCEPT !.m = 0, !.pa = IF st.m # 0 THEN 0 ELSE @]      \* if m != nil { m = nil; p = 0; a = "" }
RECURSIVE BodyOp(_, _, _)
BodyOp(st, id, k)   == IF k = 0 THEN st ELSE BodyOp(LogOp(PrefixOp(st, Phases - k + 1), id), id, k - 1)
\* one whole Layout call: Set; (from / empty test); phases; deferred Reset
CallOp(st, id, mon, kind) ==
    LET s1 == SetOp(st, id, mon)
        s2 == IF kind = "ok" THEN BodyOp(s1, id, Phases) ELSE s1
    IN ResetOp(s2)

Init == /\ m = 0 /\ pa = 0
        /\ pc = [i \in Procs |-> "idle"]
        /\ call = [i \in Procs |-> 0]
        /\ script = [i \in Procs |-> <<>>]
        /\ phase = [i \in Procs |-> 0]
        /\ xs = [i \in Procs |-> 0]
        /\ delivered = {}

\* --- Layout entry: the caller picks a monitor (or none) and a source
Begin(i) == /\ pc[i] = "idle" /\ Len(script[i]) < MaxCalls
            /\ \E mon \in MonChoice, k \in Kinds :
                  script' = [script EXCEPT ![i] = Append(@, [mon |-> mon, kind |-> k])]
            /\ call' = [call EXCEPT ![i] = Len(script[i]) + 1]
            /\ pc' = [pc EXCEPT ![i] = "set"]
            /\ phase' = [phase EXCEPT ![i] = 0]
            /\ UNCHANGED <<m, pa, xs, delivered>>

\* --- imonitor.Set(layoutOpts.monitor): `if monitor != nil { m = monitor }`
SetM(i) == /\ pc[i] = "set"
           /\ m' = SetOp(St, Id(i, call[i]), Cur(i).mon).m
           /\ pc' = [pc EXCEPT ![i] = "populate"]
           /\ UNCHANGED <<pa, call, script, phase, xs, delivered>>

\* --- from(source) and the empty-graph test: the two documented panics unwind to the deferred Reset
Populate(i) == /\ pc[i] = "populate"
               /\ pc' = [pc EXCEPT ![i] = IF Cur(i).kind = "ok" THEN "extra" ELSE "reset"]
               /\ xs' = [xs EXCEPT ![i] = 1]
               /\ UNCHANGED <<m, pa, call, script, phase, delivered>>

\* --- accesses to the other package-level variables on the Layout path (one step each)
Extra(i) == /\ pc[i] = "extra"
            /\ IF xs[i] > Cardinality(ExtraShared)
               THEN pc' = [pc EXCEPT ![i] = "prefix"] /\ UNCHANGED xs
               ELSE xs' = [xs EXCEPT ![i] = @ + 1] /\ UNCHANGED pc
            /\ UNCHANGED <<m, pa, call, script, phase, delivered>>

\* --- imonitor.PrefixFor(phase): `if m != nil { p = ...; a = ... }`
Prefix(i) == /\ pc[i] = "prefix"
             /\ pa' = PrefixOp(St, phase[i] + 1).pa
             /\ pc' = [pc EXCEPT ![i] = "log"]
             /\ UNCHANGED <<m, call, script, phase, xs, delivered>>

\* --- imonitor.Log(key, val): `if m != nil { m.Log(p, a, key, val) }` -- goes through the global
Log(i) == /\ pc[i] = "log"
          /\ delivered' = LogOp(St, Id(i, call[i])).delivered
          /\ phase' = [phase EXCEPT ![i] = @ + 1]
          /\ pc' = [pc EXCEPT ![i] = IF phase[i] + 1 >= Phases THEN "reset" ELSE "prefix"]
          /\ UNCHANGED <<m, pa, call, script, xs>>

\* --- deferred imonitor.Reset(): `if m != nil { m = nil; p = 0; a = "" }` -- also runs when the call panics
Reset(i) == /\ pc[i] = "reset"
            /\ m' = ResetOp(St).m
            /\ pa' = ResetOp(St).pa
            /\ pc' = [pc EXCEPT ![i] = "idle"]
            /\ call' = [call EXCEPT ![i] = 0]
            /\ UNCHANGED <<script, phase, xs, delivered>>

Next == \E i \in Procs : Begin(i) \/ SetM(i) \/ Populate(i) \/ Extra(i) \/ Prefix(i) \/ Log(i) \/ Reset(i)
Spec == Init /\ [][Next]_vars

-----------------------------------------------------------------------------
(* C18: a monitor only observes, and only its own call *)
Idle == \A i \in Procs : pc[i] = "idle"
Scoped        == \A d \in delivered : d[1] = d[2]
CleanWhenIdle == Idle => m = 0 /\ pa = 0
\* every call with a monitor that got as far as logging has been observed by its monitor
Expected == {<<Id(ic[1], ic[2]), Id(ic[1], ic[2])>> :
                ic \in {jc \in Procs \X (1..MaxCalls) : /\ jc[2] \in DOMAIN script[jc[1]]
                                                        /\ script[jc[1]][jc[2]].mon
                                                        /\ script[jc[1]][jc[2]].kind = "ok"}}
Done     == Idle /\ \A i \in Procs : Len(script[i]) = MaxCalls
Complete == Done => delivered = Expected

\* generator: every complete sequential history with the delivery the model predicts
Gen == (Generate /\ Done) =>
          PrintT("GEN " \o ToJson([script |-> script[CHOOSE i \in Procs : TRUE],
                                   delivered |-> {<<d[1] % 100, d[2] % 100>> : d \in delivered}]))

-----------------------------------------------------------------------------
(* C15: concurrent calls do not interfere.  The next access of a process, *)
(* as <<variable, "R" | "W">> (or none).                                   *)
NextAccess(i) ==
    CASE pc[i] = "set"    -> IF Cur(i).mon THEN {<<"m", "W">>} ELSE {}
      [] pc[i] = "extra"  -> IF xs[i] <= Cardinality(ExtraShared) THEN {<<ExtraSeq[xs[i]].name, ExtraSeq[xs[i]].access>>} ELSE {}
      [] pc[i] = "prefix" -> IF m # 0 THEN {<<"m", "R">>, <<"pa", "W">>} ELSE {<<"m", "R">>}
      [] pc[i] = "log"    -> IF m # 0 THEN {<<"m", "R">>, <<"pa", "R">>} ELSE {<<"m", "R">>}
      [] pc[i] = "reset"  -> IF m # 0 THEN {<<"m", "W">>, <<"pa", "W">>} ELSE {<<"m", "R">>}
      [] OTHER -> {}
Conflict(a, b) == a[1] = b[1] /\ (a[2] = "W" \/ b[2] = "W")
NoRace == \A i, j \in Procs : i # j => \A a \in NextAccess(i), b \in NextAccess(j) : ~Conflict(a, b)
\* a call never delivers to, or is observed through, another call's monitor
ResultIndependent == Scoped
=============================================================================
