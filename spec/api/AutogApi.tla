------------------------------ MODULE AutogApi ------------------------------
(***************************************************************************)
(* LAYER 1 -- autog as its users see it.                                   *)
(*                                                                         *)
(* The system is a sequential library with one entry point,                *)
(*     Layout(source, options...) -> layout  |  panic  |  process abort.   *)
(* Its observable state is the call in flight (cur) and, for the           *)
(* properties that relate several calls (determinism, renaming, scaling,   *)
(* component independence, monitor transparency), the completed calls of   *)
(* the current relational group (grp).                                     *)
(*                                                                         *)
(* Actions:  Call(c)  Return(r)  Panic(r)  Abort(r).                       *)
(* Return is enabled only for results that satisfy every checked property; *)
(* Panic only for the two documented panics (empty node set, malformed     *)
(* edge); Abort never.  A recorded execution of the real code is correct   *)
(* iff it is a behaviour of this specification (checked by ApiTrace).      *)
(*                                                                         *)
(* Records use the integer-only trace format of DESIGN.md section 4.3:     *)
(*   c (Call):   n, edges (canonical: <<u,v>> with 1-based node indices),  *)
(*               p1..p5, ns, ls, fixed, smap, virt, thor, mon, sc, g, rel, *)
(*               part                                                      *)
(*   r (Return): nodes[k] = [i, v, x, y, w, h (, ex)]  (i = node index,    *)
(*               v = 1 for helper nodes; coordinates in units of 1/64),    *)
(*               oe[k] = [f, t, ahs, pts (, pex)], cross, nev, exact, fin, *)
(*               after, us                                                 *)
(* Every property is an operator Cxx_Fail(c, r, v) returning the set of    *)
(* names of the violated clauses (empty = holds), guarded by               *)
(* Cxx_Applies(c, r, v): the domain restriction of the property's          *)
(* quantifier.  v == View(c, r) caches what several clauses need.          *)
(***************************************************************************)
EXTENDS GraphOps, TLC

CONSTANT Props        \* the property ids checked in this run, e.g. {"C02", "C03"}

Q == 64               \* coordinates are integers in units of 1/Q
NoCall == [ev |-> "None"]

SizeAware == {"sink", "valign", "pack", "nspos"}
BKs       == {"bk", "bk0", "bk1", "bk2", "bk3"}

\* NodeSpacing in 1/Q units: c.ns / c.nsd coordinate units (nsd a power of two <= Q, so the quotient is exact)
NSq(c) == (Q * c.ns) \div c.nsd

\* tolerance in 1/Q units: 0 whenever every logged coordinate is exact on the grid
Tol(r) == IF r.exact = 1 THEN 0 ELSE 2

If(b, name) == IF b THEN {} ELSE {name}

-----------------------------------------------------------------------------
(* View: per-record cache *)
RealK(r) == {k \in DOMAIN r.nodes : r.nodes[k].v = 0}
VirtK(r) == {k \in DOMAIN r.nodes : r.nodes[k].v = 1}

View(c, r) ==
    LET at == [i \in 1..c.n |->
                  LET K == {k \in RealK(r) : r.nodes[k].i = i}
                  IN IF Cardinality(K) = 1 THEN CHOOSE k \in K : TRUE ELSE 0]
        comp == CompMap(c.n, c.edges)
    IN [at |-> at,
        ok |-> \A i \in 1..c.n : at[i] # 0,          \* every input node present exactly once
        comp |-> comp,
        roots |-> Range(comp)]

Nd(r, v, i) == r.nodes[v.at[i]]
CompNodes(c, v, m) == {i \in 1..c.n : v.comp[i] = m}
Routed(r) == {k \in DOMAIN r.oe : r.oe[k].f # r.oe[k].t}
EdgesMapped(c, r) == \A k \in DOMAIN r.oe : r.oe[k].f \in 1..c.n /\ r.oe[k].t \in 1..c.n

\* the orientation in which the edges are drawn: input direction, flipped where ArrowHeadStart
DrawnArc(e) == IF e.ahs = 1 THEN <<e.t, e.f>> ELSE <<e.f, e.t>>
DrawnArcs(r) == {DrawnArc(r.oe[k]) : k \in Routed(r)}
\* the routed edges in output order, each as the arc <<tail, head>> it is drawn as
DrawnArcSeq(r) == LET s == SelectSeq(r.oe, LAMBDA e : e.f # e.t) IN [k \in DOMAIN s |-> DrawnArc(s[k])]

\* bands of a component: the distinct Y values of its real nodes
YsOf(c, r, v, m) == {Nd(r, v, i).y : i \in CompNodes(c, v, m)}
BandIdx(c, r, v, i) == Cardinality({y \in YsOf(c, r, v, v.comp[i]) : y < Nd(r, v, i).y})
BandFromBottom(c, r, v, i) == Cardinality({y \in YsOf(c, r, v, v.comp[i]) : y > Nd(r, v, i).y})
MaxHAt(c, r, v, m, y) == Max({Nd(r, v, i).h : i \in {j \in CompNodes(c, v, m) : Nd(r, v, j).y = y}})

\* expected size of input node i
\* the same choice among the exact float64 decompositions <<sign, mhi, mlo, exp>> of the values handed to the size options
ZeroEx == <<0, 0, 0, 0>>
ExpSizeEx(c, r, i) == IF c.smap # <<>> /\ c.smap[i][1] = 1 THEN <<r.cmx[i][1], r.cmx[i][2]>>
                      ELSE IF c.fixed # <<>> THEN <<r.cfx[1], r.cfx[2]>>
                      ELSE <<ZeroEx, ZeroEx>>
\* expected size of input node i (numerators: the size is this divided by c.sden)
ExpSize(c, i) == IF c.smap # <<>> /\ c.smap[i][1] = 1 THEN <<c.smap[i][2], c.smap[i][3]>>
                 ELSE IF c.fixed # <<>> THEN <<c.fixed[1], c.fixed[2]>>
                 ELSE <<0, 0>>

-----------------------------------------------------------------------------
(* C02 -- The output graph is the input graph: same nodes, edges,          *)
(* directions and sizes.                                                   *)
InPair(e)  == <<e[1], e[2]>>
OutPair(e) == <<e.f, e.t>>
C02_Applies(c, r, v) == TRUE
C02_Fail(c, r, v) ==
    If(/\ v.ok
       /\ \A k \in RealK(r) : r.nodes[k].i \in 1..c.n
       /\ (c.virt = 0 => VirtK(r) = {}), "OutNodes")
    \cup If(BagOf(c.edges, DOMAIN c.edges, InPair) = BagOf(r.oe, DOMAIN r.oe, OutPair), "OutEdges")
    \cup If(\A k \in RealK(r) : LET nd == r.nodes[k] IN
               nd.i \in 1..c.n => /\ Abs(c.sden * nd.w - Q * ExpSize(c, nd.i)[1]) <= c.sden * Tol(r)
                                  /\ Abs(c.sden * nd.h - Q * ExpSize(c, nd.i)[2]) <= c.sden * Tol(r)
                                  \* sizes off the binary grid (sden > 1): the returned float64 IS the configured float64
                                  /\ ("sx" \in DOMAIN nd => nd.sx = ExpSizeEx(c, r, nd.i)), "OutSizes")
    \cup If(\A k \in DOMAIN r.oe : r.oe[k].f = r.oe[k].t => r.oe[k].pts = <<>>, "LoopsUnrouted")
C02_NonTrivial(c, r, v) ==
    \/ ~IsAcyclic(ArcSet(c.edges)) \/ LoopIdx(c.edges) # {} \/ ~IsSimple(c.edges)
    \/ \E k \in DOMAIN r.oe : Len(r.oe[k].pts) > 2

-----------------------------------------------------------------------------
(* C03 -- Hierarchical drawing: layers are horizontal bands and edges flow *)
(* downward.  Domain: LayerSpacing > 0.                                    *)
C03_Applies(c, r, v) == v.ok /\ EdgesMapped(c, r) /\ c.ls > 0
BandGap(c, r, v, m) ==
    LET ys == YsOf(c, r, v, m) IN
    \A y1, y2 \in ys :
        (y1 < y2 /\ ~\E y3 \in ys : y1 < y3 /\ y3 < y2)
            => y2 + Tol(r) >= y1 + MaxHAt(c, r, v, m, y1) + Q * c.ls
C03_Fail(c, r, v) ==
    If(\A m \in v.roots : BandGap(c, r, v, m), "BandGap")
    \cup If(\A k \in Routed(r) : Nd(r, v, r.oe[k].f).y # Nd(r, v, r.oe[k].t).y, "EdgeSpansBands")
    \cup If(\A k \in Routed(r) : LET e == r.oe[k] IN
               (Nd(r, v, e.f).y > Nd(r, v, e.t).y) <=> (e.ahs = 1), "ArrowIffUp")
    \cup If(IsAcyclic(ArcSet(c.edges)) => \A k \in Routed(r) : r.oe[k].ahs = 0, "DagAllDown")
C03_NonTrivial(c, r, v) == \E m \in v.roots : Cardinality(YsOf(c, r, v, m)) >= 2

-----------------------------------------------------------------------------
(* C04 -- Nodes never overlap and keep the configured spacing.             *)
(* Domain: size-aware positioners.                                         *)
\* LayerSpacing > 0: with LayerSpacing 0 and zero-height nodes consecutive bands coincide (C03 carves the same case out) and
\* "the nodes of one band" can no longer be read off the drawing
C04_Applies(c, r, v) == v.ok /\ c.p4 \in SizeAware /\ c.ls > 0
                        /\ (c.p4 = "nspos" => c.nsd = 1)      \* "the NetworkSimplex positioner works on an integer grid" (statement)
Overlap(a, b) == a.x < b.x + b.w /\ b.x < a.x + a.w /\ a.y < b.y + b.h /\ b.y < a.y + a.h
C04_Fail(c, r, v) ==
    If(r.fin = 1 /\ \A k \in DOMAIN r.nodes : r.nodes[k].x >= 0 /\ r.nodes[k].y >= 0, "FiniteNonNeg")
    \cup If(\A i, j \in 1..c.n : i < j => ~Overlap(Nd(r, v, i), Nd(r, v, j)), "NoOverlap")
    \cup If(\A i, j \in 1..c.n : i < j =>
               LET a == Nd(r, v, i) b == Nd(r, v, j) IN
               (a.y = b.y /\ v.comp[i] = v.comp[j]) =>
                   (a.x + a.w + NSq(c) <= b.x + Tol(r) \/ b.x + b.w + NSq(c) <= a.x + Tol(r)), "BandSpacing")
    \cup If(\A m1, m2 \in v.roots : m1 < m2 =>
               LET lo(m) == Min({Nd(r, v, i).x : i \in CompNodes(c, v, m)})
                   hi(m) == Max({Nd(r, v, i).x + Nd(r, v, i).w : i \in CompNodes(c, v, m)})
               IN hi(m1) + NSq(c) <= lo(m2) + Tol(r) \/ hi(m2) + NSq(c) <= lo(m1) + Tol(r), "ComponentSpacing")
C04_NonTrivial(c, r, v) ==
    \/ Cardinality(v.roots) >= 2
    \/ \E i, j \in 1..c.n : i < j /\ Nd(r, v, i).y = Nd(r, v, j).y

-----------------------------------------------------------------------------
(* C05 -- Edges attach to their endpoint nodes and the arrowhead flag      *)
(* marks the target.  Judged for edges whose endpoints lie in different    *)
(* bands (otherwise "upper" is undefined: that is C03's business).         *)
C05_Applies(c, r, v) == v.ok /\ EdgesMapped(c, r) /\ c.p5 \in {"straight", "poly", "ortho", "splines"}
C05_EdgeOK(c, r, v, e) ==
    LET nf == Nd(r, v, e.f) nt == Nd(r, v, e.t)
        up == IF nf.y < nt.y THEN nf ELSE nt
        lo == IF nf.y < nt.y THEN nt ELSE nf
        n  == Len(e.pts)
    IN nf.y # nt.y =>
       /\ n >= 2
       /\ Abs(2 * e.pts[1][1] - (2 * up.x + up.w)) <= 2 * Tol(r) /\ Abs(e.pts[1][2] - (up.y + up.h)) <= Tol(r)
       /\ Abs(2 * e.pts[n][1] - (2 * lo.x + lo.w)) <= 2 * Tol(r) /\ Abs(e.pts[n][2] - lo.y) <= Tol(r)
       /\ (e.ahs = 1 => up.i = e.t) /\ (e.ahs = 0 => up.i = e.f)
C05_Fail(c, r, v) ==
    If(\A k \in Routed(r) : C05_EdgeOK(c, r, v, r.oe[k]), "Anchors")
    \cup If(r.fin = 1, "FinitePoints")
C05_NonTrivial(c, r, v) ==
    \/ Cardinality(v.roots) >= 2
    \/ \E k \in Routed(r) : r.oe[k].ahs = 1 \/ Len(r.oe[k].pts) > 2

-----------------------------------------------------------------------------
(* C06 -- Route geometry matches the chosen routing style.                 *)
(* Domain: size-aware positioners.                                         *)
C06_Applies(c, r, v) == v.ok /\ EdgesMapped(c, r) /\ c.p4 \in SizeAware
                        /\ c.p5 \in {"straight", "poly", "ortho", "splines"}
InsideNode(p, nd) == nd.x < p[1] /\ p[1] < nd.x + nd.w /\ nd.y < p[2] /\ p[2] < nd.y + nd.h
\* consecutive bands of component m are exactly one layer apart (no band made of helper nodes only is hidden between them)
ContigComp(c, r, v, m) ==
    LET ys == YsOf(c, r, v, m) IN
    \A y1, y2 \in ys : (y1 < y2 /\ ~\E y3 \in ys : y1 < y3 /\ y3 < y2)
        => Abs(y2 - (y1 + MaxHAt(c, r, v, m, y1) + Q * c.ls)) <= Tol(r)
C06_EdgeOK(c, r, v, e) ==
    LET nf == Nd(r, v, e.f) nt == Nd(r, v, e.t)
        ylo == IF nf.y < nt.y THEN nf.y ELSE nt.y
        yhi == IF nf.y < nt.y THEN nt.y ELSE nf.y
        ys == YsOf(c, r, v, v.comp[e.f])
        between == {y \in ys : ylo < y /\ y < yhi}
        n == Len(e.pts)
    IN nf.y # nt.y =>
       CASE c.p5 = "straight" -> n = 2
         [] c.p5 = "poly" /\ c.ls > 0 /\ ContigComp(c, r, v, v.comp[e.f]) ->
              /\ n = 2 + Cardinality(between)
              /\ \A j \in 1..(n - 1) : e.pts[j][2] <= e.pts[j + 1][2]
              \* bend j (j = 2..n-1) lies in the y-range of the (j-1)-th intermediate band
              /\ \A j \in 2..(n - 1) :
                    LET yb == CHOOSE y \in between : Cardinality({z \in between : z < y}) = j - 2
                    IN yb <= e.pts[j][2] + Tol(r)
                       /\ e.pts[j][2] <= yb + MaxHAt(c, r, v, v.comp[e.f], yb) + Tol(r)
              /\ \A j \in 2..(n - 1) : \A kk \in RealK(r) : ~InsideNode(e.pts[j], r.nodes[kk])
              /\ (c.virt = 1 => \A j \in 2..(n - 1) : \E kv \in VirtK(r) :
                     Abs(2 * r.nodes[kv].x + r.nodes[kv].w - 2 * e.pts[j][1]) <= 2 * Tol(r))
         [] c.p5 = "ortho" ->
              /\ n >= 2
              /\ \A j \in 1..(n - 1) : e.pts[j][1] = e.pts[j + 1][1] \/ e.pts[j][2] = e.pts[j + 1][2]
         [] c.p5 = "splines" ->
              /\ n >= 4 /\ n % 4 = 0
              /\ \A j \in 1..((n \div 4) - 1) : e.pts[4 * j] = e.pts[4 * j + 1]
         [] OTHER -> TRUE
C06_Fail(c, r, v) ==
    If(\A k \in Routed(r) : C06_EdgeOK(c, r, v, r.oe[k]), "Shape_" \o c.p5)
    \cup If(c.p5 = "poly" /\ c.virt = 1 =>
              \* one helper node per bend: as many helper nodes as bends in total
              Cardinality(VirtK(r)) = SumSeq([k \in DOMAIN r.oe |-> IF Len(r.oe[k].pts) > 2 THEN Len(r.oe[k].pts) - 2 ELSE 0]),
            "OneHelperPerBend")
C06_NonTrivial(c, r, v) == \E k \in Routed(r) : Len(r.oe[k].pts) > 2

-----------------------------------------------------------------------------
(* C14 -- Depth-first cycle breaking reverses an irredundant edge set;     *)
(* acyclic inputs have no reversed edge (either breaker).                  *)
C14_Applies(c, r, v) == EdgesMapped(c, r) /\ Len(r.oe) = Len(c.edges)
DrawnWithout(r, k) == {DrawnArc(r.oe[j]) : j \in Routed(r) \ {k}}
C14_Fail(c, r, v) ==
    If(IsAcyclic(ArcSet(c.edges)) => \A k \in Routed(r) : r.oe[k].ahs = 0, "DagUntouched")
    \cup If(c.p1 \in {"dfs", "dfsrand", "randdfs"} => \A k \in Routed(r) :
               \* un-reversing k alone re-creates a cycle: its input head reaches its input tail without k
               r.oe[k].ahs = 1 => r.oe[k].f \in DReach(DrawnWithout(r, k), {r.oe[k].t}), "Irredundant")
C14_NonTrivial(c, r, v) == (\E k \in Routed(r) : r.oe[k].ahs = 1) \/ ~IsSimple(c.edges)

-----------------------------------------------------------------------------
(* C16 -- VAlign centres and PackRight right-aligns every band with exact  *)
(* spacing.  Domain: connected input, helper nodes visible in the output.  *)
C16_Applies(c, r, v) == v.ok /\ c.virt = 1 /\ c.p4 \in {"valign", "pack"} /\ Cardinality(v.roots) = 1 /\ c.ls > 0     \* bands must be distinguishable, see C04
AllYs(r) == {r.nodes[k].y : k \in DOMAIN r.nodes}
BandK(r, y) == {k \in DOMAIN r.nodes : r.nodes[k].y = y}
LeftOf(r, y)  == Min({r.nodes[k].x : k \in BandK(r, y)})
RightOf(r, y) == Max({r.nodes[k].x + r.nodes[k].w : k \in BandK(r, y)})
C16_Fail(c, r, v) ==
    LET ws == [k \in DOMAIN r.nodes |-> r.nodes[k].w] IN
    If(\A y \in AllYs(r) : Abs(RightOf(r, y) - LeftOf(r, y)
                               - (SumSet(ws, BandK(r, y)) + (Cardinality(BandK(r, y)) - 1) * NSq(c))) <= Tol(r), "BandExtent")
    \cup If(Abs(Min({r.nodes[k].x : k \in DOMAIN r.nodes})) <= Tol(r), "LeftmostAtZero")
    \cup If(c.p4 = "valign" => \A y1, y2 \in AllYs(r) :
               Abs(LeftOf(r, y1) + RightOf(r, y1) - LeftOf(r, y2) - RightOf(r, y2)) <= 2 * Tol(r), "MidpointsCoincide")
    \cup If(c.p4 = "pack" => \A y1, y2 \in AllYs(r) : Abs(RightOf(r, y1) - RightOf(r, y2)) <= Tol(r), "RightEndsCoincide")
C16_NonTrivial(c, r, v) == Cardinality(AllYs(r)) >= 2 /\ \E y \in AllYs(r) : Cardinality(BandK(r, y)) >= 2

-----------------------------------------------------------------------------
(* C11 -- Longest-path layering uses the minimum number of layers.         *)
(* Judged when the drawn orientation is acyclic and LayerSpacing > 0       *)
(* (bands are recovered from Y).                                           *)
C11_Applies(c, r, v) == /\ v.ok /\ EdgesMapped(c, r) /\ c.p2 = "lp" /\ c.ls > 0
                        /\ Len(r.oe) = Len(c.edges) /\ IsAcyclic(DrawnArcs(r))
\* (ny, ys: each node's Y and each component's set of Ys are computed once per record - deep chains have > 100 bands)
C11_Fail(c, r, v) ==
    LET h == HeightToSink(1..c.n, DrawnArcs(r))
        ny == [i \in 1..c.n |-> Nd(r, v, i).y]
        ys == [m \in v.roots |-> {ny[i] : i \in CompNodes(c, v, m)}]
    IN
    If(\A i \in 1..c.n : Cardinality({y \in ys[v.comp[i]] : y > ny[i]}) = h[i] - 1, "BandIsHeightToSink")
    \cup If(\A m \in v.roots : Cardinality(ys[m]) = Max({h[i] : i \in CompNodes(c, v, m)}), "BandCount")
C11_NonTrivial(c, r, v) == \E m \in v.roots : Cardinality(YsOf(c, r, v, m)) >= 2 /\ Cardinality(CompNodes(c, v, m)) >= 3

-----------------------------------------------------------------------------
(* C10 -- Network-simplex layering minimises total edge length; bands are  *)
(* contiguous.  Not judged when the iteration budget was exhausted.        *)
C10_Applies(c, r, v) == /\ v.ok /\ EdgesMapped(c, r) /\ c.p2 = "ns" /\ c.ls > 0
                        /\ Len(r.oe) = Len(c.edges) /\ IsAcyclic(DrawnArcs(r))
                        /\ r.capped = 0
SpanOf(c, r, v, e) == Abs(BandIdx(c, r, v, e.f) - BandIdx(c, r, v, e.t))
DrawnTotal(c, r, v) == SumSeq([k \in DOMAIN r.oe |-> IF r.oe[k].f = r.oe[k].t THEN 0 ELSE SpanOf(c, r, v, r.oe[k])])
\* the optimum: brute force for n <= 5, otherwise from the LP-duality certificate attached to the record
\* (r.cert.y = a feasible rank per node, r.cert.f = a flow per routed edge, both untrusted)
CertOK(c, r) ==
    LET arcs == DrawnArcSeq(r)
        y == r.cert.y   f == r.cert.f
    IN /\ Len(y) = c.n /\ Len(f) = Len(arcs)
       /\ \A k \in DOMAIN arcs : y[arcs[k][2]] - y[arcs[k][1]] >= 1 /\ f[k] >= 0     \* primal and dual feasible
       /\ \A n \in 1..c.n :                                                         \* flow balance
             SumSeq([k \in DOMAIN arcs |-> IF arcs[k][2] = n THEN f[k] ELSE 0])
             - SumSeq([k \in DOMAIN arcs |-> IF arcs[k][1] = n THEN f[k] ELSE 0])
             = Cardinality({k \in DOMAIN arcs : arcs[k][2] = n}) - Cardinality({k \in DOMAIN arcs : arcs[k][1] = n})
       /\ SumSeq(f) = SumSeq([k \in DOMAIN arcs |-> y[arcs[k][2]] - y[arcs[k][1]]])   \* strong duality
CertTotal(r) == SumSeq(r.cert.f)
OptTotal(c, r) == IF c.n <= 5 THEN MinTotalSpan(c.n, DrawnArcSeq(r)) ELSE CertTotal(r)
\* a missing or wrong certificate is a harness error (clauses named HARNESS_* are never verdicts)
C10_CertBad(c, r) == ("cert" \in DOMAIN r /\ ~CertOK(c, r)) \/ (c.n > 5 /\ "cert" \notin DOMAIN r)
C10_Fail(c, r, v) ==
    IF C10_CertBad(c, r) THEN {"HARNESS_BadCertificate"}
    ELSE (IF c.n <= 5 /\ "cert" \in DOMAIN r /\ CertTotal(r) # MinTotalSpan(c.n, DrawnArcSeq(r))
          THEN {"HARNESS_CertificateDisagreesWithBruteForce"} ELSE {})
         \cup If(DrawnTotal(c, r, v) = OptTotal(c, r), "Optimal")
         \cup If(\A m \in v.roots : ContigComp(c, r, v, m), "Contiguous")
         \* layer 3 (exit report of hook H3; a DRIFT diagnostic, clause prefix L3_): the pivot loop ends because no tree edge
         \* has a negative cut value, or because the budget is used up - never with a negative edge left and budget to spare
         \cup If(r.stuck = 0, "L3_PivotLoopEndsOnOptimalityOrBudget")
C10_NonTrivial(c, r, v) == r.pivots >= 1

-----------------------------------------------------------------------------
(* C12 / C13 -- crossings of the drawing.                                  *)
(* Polyline routes give, per pair of adjacent bands of a component, one    *)
(* segment (x at the upper band, x at the lower band) per edge.  Judged    *)
(* when every routed polyline has exactly one point per band it touches.   *)
PolyOK(c, r, v, e) ==
    /\ Nd(r, v, e.f).y # Nd(r, v, e.t).y
    /\ Len(e.pts) = 1 + Abs(BandIdx(c, r, v, e.f) - BandIdx(c, r, v, e.t))
XWellDefined(c, r, v) == v.ok /\ EdgesMapped(c, r) /\ c.p5 = "poly" /\ \A k \in Routed(r) : PolyOK(c, r, v, r.oe[k])
TopIdx(c, r, v, e) == IF BandIdx(c, r, v, e.f) < BandIdx(c, r, v, e.t) THEN BandIdx(c, r, v, e.f) ELSE BandIdx(c, r, v, e.t)
\* <<component, upper band index, x at upper band, x at lower band, edge, piece>>
Segs(c, r, v) == UNION {{<<v.comp[r.oe[k].f], TopIdx(c, r, v, r.oe[k]) + j - 1, r.oe[k].pts[j][1], r.oe[k].pts[j + 1][1], k, j>>
                          : j \in 1..(Len(r.oe[k].pts) - 1)} : k \in Routed(r)}
DrawnCrossings(c, r, v) ==
    LET S == Segs(c, r, v) IN
    Cardinality({p \in S \X S : /\ p[1][1] = p[2][1] /\ p[1][2] = p[2][2]      \* same component, same band pair
                                /\ p[1][3] < p[2][3] /\ p[1][4] > p[2][4]})    \* strictly inverted (unordered pair counted once)
C12_Applies(c, r, v) == /\ XWellDefined(c, r, v) /\ c.mon = 1 /\ c.p4 \in SizeAware /\ c.ns > 0
                        /\ IsSimple(c.edges)
C12_Fail(c, r, v) == If(SumSeq(r.cross) = DrawnCrossings(c, r, v), "ReportedEqualsDrawn")
C12_NonTrivial(c, r, v) == SumSeq(r.cross) > 0

C13_Applies(c, r, v) == /\ XWellDefined(c, r, v) /\ c.p4 \in SizeAware /\ c.ns > 0
                        /\ (IsOutTree(c.n, c.edges) \/ IsInTree(c.n, c.edges))
C13_Fail(c, r, v) == If(DrawnCrossings(c, r, v) = 0, "TreePlanar")
C13_NonTrivial(c, r, v) == c.n >= 4 /\ \E i \in 1..c.n : Cardinality({k \in DOMAIN c.edges : c.edges[k][1] = i \/ c.edges[k][2] = i}) >= 3

-----------------------------------------------------------------------------
(* C01 -- Layout always returns.  The Return itself is the witness; the    *)
(* clause left to judge on a Return is the time budget.                    *)
\* generous for the graph's size: 2 s plus (n+m)^3/100 ms.  The network-simplex positioner is documented as
\* "time-intensive for graphs above a few dozen nodes" (measured: minutes for 40 nodes / 100 edges, DESIGN.md
\* section 12), so it gets (n+m)^4/200 ms; both are >= 9x the slowest run measured on the repaired library.
BudgetMs(c) == LET sz == c.n + Len(c.edges) IN
               IF c.p4 = "nspos"
               THEN (IF sz <= 300 THEN 2000 + ((sz * sz) \div 200) * sz * sz ELSE 2000000000)
               ELSE (IF sz <= 1200 THEN 2000 + ((sz * sz) \div 100) * sz ELSE 2000000000)     \* bounded: TLC integers are 32 bit
C01_Applies(c, r, v) == TRUE
C01_Fail(c, r, v) == If(r.us \div 1000 <= BudgetMs(c), "TimeBudget")
C01_NonTrivial(c, r, v) == c.n >= 2 /\ NonLoopIdx(c.edges) # {}

-----------------------------------------------------------------------------
(* Relational properties: the current call is compared with the completed  *)
(* calls of its group.  g[1] is the reference; entries with rel "ref" or   *)
(* "same" are repetitions of the reference.                                *)
SameOut(r1, r2) == r1.nodes = r2.nodes /\ r1.oe = r2.oe
\* same drawing, output order ignored
NodeBag(r) == BagOf(r.nodes, DOMAIN r.nodes, LAMBDA nd : <<nd.i, nd.v, nd.ex>>)
EdgeBag(r) == BagOf(r.oe, DOMAIN r.oe, LAMBDA e : <<e.f, e.t, e.ahs, e.pex>>)
SameDrawing(r1, r2) == NodeBag(r1) = NodeBag(r2) /\ EdgeBag(r1) = EdgeBag(r2)
Refs(g) == {k \in DOMAIN g : g[k].c.rel \in {"ref", "same"}}
StableRef(g) == \A k \in Refs(g) : SameOut(g[k].r, g[1].r)

(* C07 -- deterministic, side-effect free *)
C07_Applies(c, r, v, g) == c.rel \in {"ref", "same"} /\ c.p1 # "greedyrand"
C07_Fail(c, r, v, g) ==
    If(g = <<>> \/ SameOut(r, g[1].r), "Deterministic")
    \cup If("after" \in DOMAIN r =>
               /\ r.after.edges = c.edges
               /\ r.after.nsmap = Cardinality({i \in DOMAIN c.smap : c.smap[i][1] = 1})
               /\ \A i \in DOMAIN c.smap : c.smap[i][1] = 1 =>
                     /\ i \in DOMAIN r.after.smap /\ r.after.smap[i][1] = 1
                     /\ r.after.smap[i][2] = Q * c.smap[i][2] /\ r.after.smap[i][3] = Q * c.smap[i][3]
                     /\ r.after.smap[i][4] = (IF Len(c.smap[i]) >= 5 THEN Q * c.smap[i][4] ELSE 0)
                     /\ r.after.smap[i][5] = (IF Len(c.smap[i]) >= 5 THEN Q * c.smap[i][5] ELSE 0)
               \* two WithNodeSize options in one call (c.dup = 1): the map given to the FIRST one (every odd node, 3 x 5) is the
               \* caller's data just as well
               /\ ("smap0" \in DOMAIN r.after =>
                     /\ r.after.nsmap0 = Cardinality({i \in 1..c.n : i % 2 = 1})
                     /\ \A i \in 1..c.n : r.after.smap0[i] = IF i % 2 = 1 THEN <<1, Q * 3, Q * 5>> ELSE <<0, 0, 0>>), "InputUntouched")
C07_NonTrivial(c, r, v, g) == g # <<>> /\ c.n >= 3

(* C08 -- node identifiers are opaque *)
C08_Applies(c, r, v, g) == c.rel = "rename" /\ g # <<>> /\ StableRef(g)
C08_Fail(c, r, v, g) == If(SameDrawing(r, g[1].r), "RenameEquivariant")
C08_NonTrivial(c, r, v, g) == c.n >= 3

(* C17 -- scale equivariance (the driver logs coordinates divided by the case's scale) *)
C17_Applies(c, r, v, g) == /\ c.rel = "scale" /\ g # <<>> /\ StableRef(g)
                           /\ c.p4 \in {"sink", "valign", "pack"} \cup BKs /\ c.p5 \in {"straight", "poly", "ortho"}
C17_Fail(c, r, v, g) == If(SameOut(r, g[1].r), "ScaleEquivariant")
C17_NonTrivial(c, r, v, g) == c.n >= 3 /\ c.sc # 0

(* C18 (layer-1 part) -- supplying a monitor does not change the layout *)
C18_Applies(c, r, v, g) == c.rel = "mon" /\ g # <<>> /\ StableRef(g)
C18_Fail(c, r, v, g) == If(SameOut(r, g[1].r), "MonitorTransparent")
C18_NonTrivial(c, r, v, g) == c.n >= 3 /\ r.nev > 0

(* C15 (layer-1 part) -- every concurrent call returns exactly what it returns when run alone: *)
(* the group's reference is the sequential run, rel "conc" members ran concurrently           *)
C15_Applies(c, r, v, g) == c.rel = "conc" /\ g # <<>> /\ c.p1 # "greedyrand"
C15_Fail(c, r, v, g) == If(SameOut(r, g[1].r), "SequentialEquivalent")
C15_NonTrivial(c, r, v, g) == c.n >= 3

(* C09 -- components are laid out independently, side by side.             *)
(* The group holds the solo runs of the parts (rel "part", c.part maps the *)
(* part's node j to the union's node part[j]); the current call is the     *)
(* union.                                                                  *)
Parts(g) == {k \in DOMAIN g : g[k].c.rel = "part"}
StableParts(g) == \A k1, k2 \in Parts(g) : g[k1].c.part = g[k2].c.part => SameOut(g[k1].r, g[k2].r)
PartOK(c, r, v, pc, pr) ==
    LET pv == View(pc, pr)
        pm == pc.part
    IN pv.ok =>
       \E dx \in {Nd(r, v, pm[1]).x - Nd(pr, pv, 1).x} :
          /\ \A j \in 1..pc.n :
                LET a == Nd(pr, pv, j) b == Nd(r, v, pm[j]) IN
                Abs(b.x - a.x - dx) <= Tol(r) + Tol(pr) /\ b.y = a.y /\ b.w = a.w /\ b.h = a.h
          \* the routed edges of the part, as a bag of <<from, to, flag, translated points>>
          /\ BagOf(pr.oe, DOMAIN pr.oe, LAMBDA e : <<pm[e.f], pm[e.t], e.ahs, [q \in DOMAIN e.pts |-> <<e.pts[q][1] + dx, e.pts[q][2]>>]>>)
             = LET ks == {k \in DOMAIN r.oe : r.oe[k].f \in Range(pm)} IN
               BagOf(r.oe, ks, LAMBDA e : <<e.f, e.t, e.ahs, e.pts>>)
\* the same judgement for records that are NOT exact on the 1/64 grid (sizes off the binary grid, c.sden > 1: the union's
\* coordinates are the part's plus a shift, rounded): the same nodes and sizes within the tolerance of the grid, and the same
\* routes STRUCTURALLY - per edge (end nodes, flag) the same number of points, each within the tolerance
PartOKApprox(c, r, v, pc, pr) ==
    LET pv == View(pc, pr)
        pm == pc.part
        tol == 4
    IN pv.ok =>
       \E dx \in {Nd(r, v, pm[1]).x - Nd(pr, pv, 1).x} :
          /\ \A j \in 1..pc.n :
                LET a == Nd(pr, pv, j) b == Nd(r, v, pm[j]) IN
                Abs(b.x - a.x - dx) <= tol /\ Abs(b.y - a.y) <= tol /\ Abs(b.w - a.w) <= tol /\ Abs(b.h - a.h) <= tol
          /\ BagOf(pr.oe, DOMAIN pr.oe, LAMBDA e : <<pm[e.f], pm[e.t], e.ahs, Len(e.pts)>>)
             = LET ks == {k \in DOMAIN r.oe : r.oe[k].f \in Range(pm)} IN
               BagOf(r.oe, ks, LAMBDA e : <<e.f, e.t, e.ahs, Len(e.pts)>>)
          \* edges that are the only one between their end nodes: point by point
          /\ \A k \in DOMAIN pr.oe :
                LET e == pr.oe[k]
                    twins == {k2 \in DOMAIN pr.oe : pr.oe[k2].f = e.f /\ pr.oe[k2].t = e.t}
                    img == {k2 \in DOMAIN r.oe : r.oe[k2].f = pm[e.f] /\ r.oe[k2].t = pm[e.t]}
                IN (Cardinality(twins) = 1 /\ Cardinality(img) = 1) =>
                     LET u == r.oe[CHOOSE k2 \in img : TRUE] IN
                     Len(u.pts) = Len(e.pts) /\ \A q \in DOMAIN e.pts :
                         Abs(u.pts[q][1] - e.pts[q][1] - dx) <= tol /\ Abs(u.pts[q][2] - e.pts[q][2]) <= tol
\* the solo runs of ALL parts have returned (the parts partition the union's nodes) and their outputs are proper views
AllPartsReturned(c, g) == LET ps == {g[k].c.part : k \in Parts(g)} IN
                          ps # {} /\ UNION {Range(pm) : pm \in ps} = 1..c.n
PartsProper(g) == \A k \in Parts(g) : View(g[k].c, g[k].r).ok /\ EdgesMapped(g[k].c, g[k].r)
C09_AllExact(r, g) == r.exact = 1 /\ \A k \in Parts(g) : g[k].r.exact = 1
C09_Applies(c, r, v, g) == c.rel = "union" /\ Parts(g) # {} /\ StableParts(g)
                           /\ (C09_AllExact(r, g) \/ c.sden > 1)
                           /\ ((v.ok /\ EdgesMapped(c, r)) \/ (AllPartsReturned(c, g) /\ PartsProper(g)))
C09_Fail(c, r, v, g) ==
    IF ~(v.ok /\ EdgesMapped(c, r))
    THEN {"ComponentIndependent"}       \* every part alone yields a proper drawing of its input, the union does not
    ELSE
    If(\A k \in Parts(g) : IF C09_AllExact(r, g) THEN PartOK(c, r, v, g[k].c, g[k].r)
                                                   ELSE PartOKApprox(c, r, v, g[k].c, g[k].r), "ComponentIndependent")
    \* (the network-simplex positioner works on an integer grid: sizes and spacing range over integers for it, as in C04)
    \cup If((c.p4 \in SizeAware /\ (c.p4 = "nspos" => c.sden = 1 /\ c.nsd = 1)) =>
              \A m1, m2 \in v.roots : m1 < m2 =>
               LET lo(m) == Min({Nd(r, v, i).x : i \in CompNodes(c, v, m)})
                   hi(m) == Max({Nd(r, v, i).x + Nd(r, v, i).w : i \in CompNodes(c, v, m)})
               IN hi(m1) + NSq(c) <= lo(m2) + Tol(r) \/ hi(m2) + NSq(c) <= lo(m1) + Tol(r), "SideBySide")
C09_NonTrivial(c, r, v, g) == Cardinality(v.roots) >= 2 /\ c.n >= 4

-----------------------------------------------------------------------------
(* dispatch *)
Unary == {"C01", "C02", "C03", "C04", "C05", "C06", "C10", "C11", "C12", "C13", "C14", "C16"}

Applies(P, c, r, v, g) ==
    CASE P = "C01" -> C01_Applies(c, r, v) [] P = "C02" -> C02_Applies(c, r, v)
      [] P = "C03" -> C03_Applies(c, r, v) [] P = "C04" -> C04_Applies(c, r, v)
      [] P = "C05" -> C05_Applies(c, r, v) [] P = "C06" -> C06_Applies(c, r, v)
      [] P = "C07" -> C07_Applies(c, r, v, g) [] P = "C08" -> C08_Applies(c, r, v, g)
      [] P = "C09" -> C09_Applies(c, r, v, g) [] P = "C10" -> C10_Applies(c, r, v)
      [] P = "C11" -> C11_Applies(c, r, v) [] P = "C12" -> C12_Applies(c, r, v)
      [] P = "C13" -> C13_Applies(c, r, v) [] P = "C14" -> C14_Applies(c, r, v)
      [] P = "C16" -> C16_Applies(c, r, v) [] P = "C17" -> C17_Applies(c, r, v, g)
      [] P = "C18" -> C18_Applies(c, r, v, g) [] P = "C15" -> C15_Applies(c, r, v, g)
Fail(P, c, r, v, g) ==
    CASE P = "C01" -> C01_Fail(c, r, v) [] P = "C02" -> C02_Fail(c, r, v)
      [] P = "C03" -> C03_Fail(c, r, v) [] P = "C04" -> C04_Fail(c, r, v)
      [] P = "C05" -> C05_Fail(c, r, v) [] P = "C06" -> C06_Fail(c, r, v)
      [] P = "C07" -> C07_Fail(c, r, v, g) [] P = "C08" -> C08_Fail(c, r, v, g)
      [] P = "C09" -> C09_Fail(c, r, v, g) [] P = "C10" -> C10_Fail(c, r, v)
      [] P = "C11" -> C11_Fail(c, r, v) [] P = "C12" -> C12_Fail(c, r, v)
      [] P = "C13" -> C13_Fail(c, r, v) [] P = "C14" -> C14_Fail(c, r, v)
      [] P = "C16" -> C16_Fail(c, r, v) [] P = "C17" -> C17_Fail(c, r, v, g)
      [] P = "C18" -> C18_Fail(c, r, v, g) [] P = "C15" -> C15_Fail(c, r, v, g)
NonTrivial(P, c, r, v, g) ==
    CASE P = "C01" -> C01_NonTrivial(c, r, v) [] P = "C02" -> C02_NonTrivial(c, r, v)
      [] P = "C03" -> C03_NonTrivial(c, r, v) [] P = "C04" -> C04_NonTrivial(c, r, v)
      [] P = "C05" -> C05_NonTrivial(c, r, v) [] P = "C06" -> C06_NonTrivial(c, r, v)
      [] P = "C07" -> C07_NonTrivial(c, r, v, g) [] P = "C08" -> C08_NonTrivial(c, r, v, g)
      [] P = "C09" -> C09_NonTrivial(c, r, v, g) [] P = "C10" -> C10_NonTrivial(c, r, v)
      [] P = "C11" -> C11_NonTrivial(c, r, v) [] P = "C12" -> C12_NonTrivial(c, r, v)
      [] P = "C13" -> C13_NonTrivial(c, r, v) [] P = "C14" -> C14_NonTrivial(c, r, v)
      [] P = "C16" -> C16_NonTrivial(c, r, v) [] P = "C17" -> C17_NonTrivial(c, r, v, g)
      [] P = "C18" -> C18_NonTrivial(c, r, v, g) [] P = "C15" -> C15_NonTrivial(c, r, v, g)

\* the set of <<property, clause>> pairs the returned result violates
Violations(c, r, g) ==
    LET v == View(c, r) IN
    UNION {IF Applies(P, c, r, v, g) THEN {<<P, cl>> : cl \in Fail(P, c, r, v, g)} ELSE {} : P \in Props}
JudgedProps(c, r, g) == LET v == View(c, r) IN {P \in Props : Applies(P, c, r, v, g)}
NonTrivialProps(c, r, g) == LET v == View(c, r) IN {P \in Props : Applies(P, c, r, v, g) /\ NonTrivial(P, c, r, v, g)}

-----------------------------------------------------------------------------
(* The transition system *)
VARIABLES cur, grp
apiVars == <<cur, grp>>

ApiInit == cur = NoCall /\ grp = <<>>

Call(c) == /\ cur = NoCall
           /\ cur' = c
           /\ grp' = IF c.g # 0 /\ grp # <<>> /\ grp[1].c.g = c.g THEN grp ELSE <<>>

KeepInGroup(c) == c.g # 0 /\ c.rel \in {"ref", "same", "part"}
Complete(r) == /\ cur' = NoCall
               /\ grp' = IF KeepInGroup(cur) /\ Len(grp) < 40 THEN Append(grp, [c |-> cur, r |-> r]) ELSE grp

\* a result is returned: every checked property holds for it
Return(r) == /\ cur # NoCall /\ r.case = cur.case
             /\ Violations(cur, r, grp) = {}
             /\ Complete(r)

\* the two documented panics: empty node set, malformed edge
PanicAllowed(c) == c.n = 0 \/ c.bad # 0
\* A relational property also relates OUTCOMES: when the calls a call is compared with have returned (the reference of its
\* group; for a union the solo runs of all its parts), the call must return too.  A panic of the related call is then a
\* violation of the relation (and of C01).  Aborts are left to C01: a watchdog abort can be the machine's fault.
RelPropOf(rel) == CASE rel = "same" -> "C07" [] rel = "rename" -> "C08" [] rel = "union" -> "C09" [] rel = "scale" -> "C17"
                    [] rel = "mon" -> "C18" [] rel = "conc" -> "C15" [] OTHER -> "none"
PanicBreaksRelation(c, g) == /\ ~PanicAllowed(c) /\ RelPropOf(c.rel) \in Props
                             /\ IF c.rel = "union" THEN AllPartsReturned(c, g) ELSE g # <<>>
Panic(r) == /\ cur # NoCall /\ r.case = cur.case
            /\ PanicAllowed(cur)
            /\ cur' = NoCall /\ UNCHANGED grp

\* a process abort (stack overflow, out of memory, watchdog) is never a behaviour of the system
Abort(r) == FALSE

=============================================================================
