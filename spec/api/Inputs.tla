------------------------------- MODULE Inputs -------------------------------
(***************************************************************************)
(* Input-space generators (spec -> code).                                  *)
(*                                                                         *)
(* autog's behaviour depends on the edge list only up to an injective      *)
(* renaming of the nodes (that is property C08, checked separately), so    *)
(* the input space is enumerated in CANONICAL form: node indices appear in *)
(* first-appearance order.  TLC explores the build-up system below and     *)
(* prints every reachable edge list exactly once, together with the        *)
(* classification the checks use to select sub-families.                   *)
(*                                                                         *)
(*   Family = "edgelists":  E(N, M) = every canonical list with at most N  *)
(*        nodes and 1..M edges: self-loops, parallel and antiparallel      *)
(*        edges, disconnected graphs and every edge order included.        *)
(*   Family = "simple":     the same without loops/parallel/antiparallel.  *)
(*   Family = "dags":       canonical lists that stay acyclic and          *)
(*        connected-or-not, parallel edges allowed.                        *)
(*   Family = "trees":      every rooted tree on N nodes as a parent       *)
(*        function, both orientations, every edge order (N <= MaxPerm)     *)
(*        or the orders reachable by rotation (above).                     *)
(***************************************************************************)
EXTENDS GraphOps, TLC, Json, SequencesExt

CONSTANTS Family, N, M

VARIABLE es
vars == <<es>>

Seen(s) == NodeCount(s)

\* the edges that keep the list canonical: endpoints among the nodes seen so far plus fresh ones in order
NextEdges(s) ==
    LET k == Seen(s) IN
    {<<u, v>> \in (1..(k + 2)) \X (1..(k + 2)) :
        /\ u <= k + 1
        /\ v <= (IF u = k + 1 THEN k + 2 ELSE k + 1)
        /\ (IF u = k + 1 THEN (IF v = k + 2 THEN k + 2 ELSE k + 1) ELSE (IF v = k + 1 THEN k + 1 ELSE k)) <= N}

Allowed(s, e) ==
    CASE Family = "edgelists" -> TRUE
      [] Family = "simple" -> e[1] # e[2] /\ \A i \in DOMAIN s : s[i] # e /\ s[i] # <<e[2], e[1]>>
      [] Family = "dags" -> e[1] # e[2] /\ IsAcyclic(ArcSet(Append(s, e)))
      [] OTHER -> FALSE

Classify(s) ==
    LET n == NodeCount(s) IN
    [e |-> s, n |-> n,
     acyc |-> IF IsAcyclic(ArcSet(s)) THEN 1 ELSE 0,
     conn |-> IF Cardinality(CompSets(n, s)) = 1 THEN 1 ELSE 0,
     simple |-> IF IsSimple(s) THEN 1 ELSE 0,
     loops |-> Cardinality(LoopIdx(s))]

\* ------------------------------------------------------------------ trees
\* parent functions of rooted trees on 1..N with root 1 and parent[i] < i (every rooted tree shape, labelled in BFS/DFS-compatible order)
ParentFns == {p \in [2..N -> 1..(N - 1)] : \A i \in 2..N : p[i] < i}
TreeEdges(p, dir) == [i \in 1..(N - 1) |-> IF dir = "out" THEN <<p[i + 1], i + 1>> ELSE <<i + 1, p[i + 1]>>]
\* relabel so that the list is canonical (first-appearance order)
RECURSIVE FirstSeen(_, _, _)
FirstSeen(s, k, acc) ==
    IF k > Len(s) THEN acc
    ELSE LET a1 == IF \E j \in DOMAIN acc : acc[j] = s[k][1] THEN acc ELSE Append(acc, s[k][1])
             a2 == IF \E j \in DOMAIN a1 : a1[j] = s[k][2] THEN a1 ELSE Append(a1, s[k][2])
         IN FirstSeen(s, k + 1, a2)
Canon(s) == LET ord == FirstSeen(s, 1, <<>>)
                idx(x) == CHOOSE j \in DOMAIN ord : ord[j] = x
            IN [k \in DOMAIN s |-> <<idx(s[k][1]), idx(s[k][2])>>]
TreeLists == IF Family = "trees"
             THEN {Canon([k \in 1..(N - 1) |-> TreeEdges(p, d)[perm[k]]]) :
                      p \in ParentFns, d \in {"out", "in"}, perm \in Permutations(1..(N - 1))}
             ELSE {}

\* ------------------------------------------------------------ transition system
Init == IF Family = "trees" THEN es \in TreeLists ELSE es = <<>>
Next == /\ Family # "trees"
        /\ Len(es) < M
        /\ \E e \in NextEdges(es) : Allowed(es, e) /\ es' = Append(es, e)
Spec == Init /\ [][Next]_vars

\* generator: print every reachable non-empty list once (invariants are evaluated once per distinct state)
Gen == es # <<>> => PrintT("GEN " \o ToJson(Classify(es)))
=============================================================================
