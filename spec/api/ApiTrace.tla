------------------------------ MODULE ApiTrace ------------------------------
(***************************************************************************)
(* Trace validation (code -> spec) against layer 1.                        *)
(*                                                                         *)
(* The trace is an ndjson file written by the conformance driver: one      *)
(* record per event (Call, Return, Panic, Abort) of a run of the real      *)
(* autog.Layout.  Every record must be consumed by an action of AutogApi.  *)
(*                                                                         *)
(* "A rejected trace has no counterexample": to check the REST of a trace  *)
(* after a record the specification cannot match, every event has a        *)
(* Reject twin that is enabled exactly when the AutogApi action is not,    *)
(* prints which property/clause disabled it and moves on.  The verdict is  *)
(* read from these VIOL lines; the post-condition checks that every line   *)
(* of the trace was consumed.                                              *)
(***************************************************************************)
EXTENDS AutogApi, Json, IOUtils

Trace == ndJsonDeserialize(IOEnv.VERIF_TRACE)

VARIABLES l,        \* next line of the trace
          cnt       \* counters: [calls, returns, judged, nontriv, viol, panics, aborts, skipped]
vars == <<l, cnt, cur, grp>>

Zero == [calls |-> 0, returns |-> 0, judged |-> 0, nontriv |-> 0, viol |-> 0, panics |-> 0, aborts |-> 0, unjudged |-> 0]

TraceInit == ApiInit /\ l = 1 /\ cnt = Zero

IsEvent(e) == l <= Len(Trace) /\ Trace[l].ev = e /\ l' = l + 1
Rec == Trace[l]

\* after the last line: print the counters (one STATS line per trace)
Final == IF l' = Len(Trace) + 1 THEN PrintT("STATS " \o ToJson(cnt')) ELSE TRUE

TraceCall ==
    /\ IsEvent("Call")
    /\ \/ Call(Rec)
       \/ /\ cur # NoCall                 \* a Call while another is in flight: the previous one never completed
          /\ PrintT("VIOL " \o ToJson(<<cur.case, {<<"C01", "NoCompletion">>}>>))
          /\ cur' = Rec /\ grp' = <<>>
    /\ cnt' = [cnt EXCEPT !.calls = @ + 1]
    /\ Final

TraceReturn ==
    /\ IsEvent("Return")
    /\ cur # NoCall /\ Rec.case = cur.case
    /\ LET V == Violations(cur, Rec, grp)
           J == JudgedProps(cur, Rec, grp)
           N == NonTrivialProps(cur, Rec, grp)
       IN /\ IF V = {}
             THEN Return(Rec)                                   \* accepted by the specification
             ELSE /\ PrintT("VIOL " \o ToJson(<<cur.case, V>>))            \* Reject twin: not a behaviour; report and go on
                  /\ Complete(Rec)
          /\ cnt' = [cnt EXCEPT !.returns = @ + 1,
                                !.judged = @ + (IF J # {} THEN 1 ELSE 0),
                                !.unjudged = @ + (IF J = {} THEN 1 ELSE 0),
                                !.nontriv = @ + (IF N # {} THEN 1 ELSE 0),
                                !.viol = @ + (IF V # {} THEN 1 ELSE 0)]
    /\ Final

TracePanic ==
    /\ IsEvent("Panic")
    /\ cur # NoCall /\ Rec.case = cur.case
    /\ LET V == (IF ~PanicAllowed(cur) /\ "C01" \in Props THEN {<<"C01", "Panic">>} ELSE {})
                \cup (IF PanicBreaksRelation(cur, grp) THEN {<<RelPropOf(cur.rel), "ReturnsLikeItsReference">>} ELSE {})
       IN /\ IF PanicAllowed(cur)
             THEN Panic(Rec)
             ELSE /\ (IF V # {} THEN PrintT("VIOL " \o ToJson(<<cur.case, V, Rec.where, Rec.msg>>)) ELSE TRUE)
                  /\ cur' = NoCall /\ UNCHANGED grp
          /\ cnt' = [cnt EXCEPT !.panics = @ + 1, !.viol = @ + (IF V # {} THEN 1 ELSE 0)]
    /\ Final

TraceAbort ==      \* AutogApi!Abort is never enabled: an abort is always rejected
    /\ IsEvent("Abort")
    /\ cur # NoCall /\ Rec.case = cur.case
    /\ (IF "C01" \in Props THEN PrintT("VIOL " \o ToJson(<<cur.case, {<<"C01", "Abort_" \o Rec.kind>>}, Rec.where>>)) ELSE TRUE)
    /\ cur' = NoCall /\ UNCHANGED grp
    /\ cnt' = [cnt EXCEPT !.aborts = @ + 1, !.viol = @ + (IF "C01" \in Props THEN 1 ELSE 0)]
    /\ Final

TraceNext == TraceCall \/ TraceReturn \/ TracePanic \/ TraceAbort
TraceSpec == TraceInit /\ [][TraceNext]_vars

\* every line of the trace was consumed (one state per line plus the initial state)
TraceAccepted == TLCGet("stats").diameter - 1 = Len(Trace)
=============================================================================
