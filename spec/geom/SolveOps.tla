------------------------------ MODULE SolveOps ------------------------------
(***************************************************************************)
(* The judgement of a recorded root-finder result; see Solve.tla.          *)
(***************************************************************************)
EXTENDS Integers, Sequences

\* Tolerances in units of 1e-7 * max(1, |root|).  A root of multiplicity m is determined by the coefficients only
\* up to the m-th root of their relative accuracy, so the tolerance is 1e-6 for simple, 1e-5 for double and 1e-4
\* for triple roots (the roots of the generated family are at least 0.5 apart, so the association is unambiguous).
RootTol(m) == CASE m = 1 -> 10 [] m = 2 -> 100 [] OTHER -> 1000
\* c.roots[i] = <<numerator, denominator, multiplicity>> of the i-th distinct real root the polynomial was built from
\* r.miss[i]   = distance of expected root i to the nearest returned value (capped)
\* r.extra[j]  = distance of returned value j to the nearest expected root, r.extram[j] = that root's multiplicity
RootsOK_AllFound(c, r) == \A i \in DOMAIN r.miss : r.miss[i] <= RootTol(c.roots[i][3])
RootsOK_NothingElse(c, r) == \A j \in DOMAIN r.extra : r.extra[j] <= RootTol(r.extram[j])
=============================================================================
