------------------------------ MODULE GeomTrace ------------------------------
(***************************************************************************)
(* Trace validation of the geometry entry points (driver `geom`):          *)
(*   kind "shortest": geom.Shortest(start, end, rects)            -- C19   *)
(*   kind "fit":      Shortest + MergeRects + FitSpline           -- C20   *)
(*   kind "solve":    the cubic/quadratic/linear root finder      -- C20   *)
(* Each Call record carries the case (integer coordinates, divided by      *)
(* c.den in the driver), each Return record the observed result.  The      *)
(* system allows a Return only if the checked property holds for it; the   *)
(* Reject twin reports the failing clause and goes on; a Panic or a        *)
(* process abort is never a behaviour.                                     *)
(***************************************************************************)
EXTENDS CorridorOps, FunnelOps, SplineFitOps, SolveOps, TLC, Json, IOUtils

CONSTANT Props

Trace == ndJsonDeserialize(IOEnv.VERIF_TRACE)

VARIABLES l, cur, cnt
tvars == <<l, cur, cnt>>
NoCall == [ev |-> "None"]
TraceInit == l = 1 /\ cur = NoCall /\ cnt = [calls |-> 0, returns |-> 0, judged |-> 0, nontriv |-> 0, viol |-> 0, panics |-> 0, aborts |-> 0, unjudged |-> 0, l3 |-> 0]

IsEvent(ev) == l <= Len(Trace) /\ Trace[l].ev = ev /\ l' = l + 1
Rec == Trace[l]
Final == IF l' = Len(Trace) + 1 THEN PrintT("STATS " \o ToJson(cnt')) ELSE TRUE
If(b, name) == IF b THEN {} ELSE {name}

\* ------------------------------------------------------------------ C19
Pt(q) == <<q[1], q[2]>>
RectSeq(c) == [i \in DOMAIN c.rects |-> <<c.rects[i][1], c.rects[i][2], c.rects[i][3], c.rects[i][4]>>]
PathSeq(r) == [i \in DOMAIN r.path |-> Pt(r.path[i])]
C19_Applies(c, r) == c.kind = "shortest" /\ WellFormed(RectSeq(c))
                     /\ InRect(Pt(c.s), RectSeq(c)[1]) /\ InRect(Pt(c.e), RectSeq(c)[Len(c.rects)])
C19_Fail(c, r) ==
    LET rcs == RectSeq(c) pth == PathSeq(r) IN
    If(r.exact = 1 /\ Len(pth) >= 1 /\ pth[1] = Pt(c.e) /\ pth[Len(pth)] = Pt(c.s), "EndToStart")       \* a polyline from the end point to the start point
    \cup If(r.exact = 1 /\ \A i \in 1..(Len(pth) - 1) : SegInside(pth[i], pth[i + 1], rcs), "InsideCorridor")
    \cup If(r.exact = 1 /\ IsGeodesicAny(Reverse(pth), Pt(c.s), Pt(c.e), rcs), "Shortest")
C19_NonTrivial(c, r) == Len(Norm(PathSeq(r))) >= 3
\* diagnostic (DRIFT, never a verdict): the intermediate triangulation is a triangulation of the corridor
TriSeq(r) == [i \in DOMAIN r.tris |-> <<Pt(r.tris[i][1]), Pt(r.tris[i][2]), Pt(r.tris[i][3])>>]
C19_Drift(c, r) == IF "tris" \in DOMAIN r /\ ~TriangulationOK(RectSeq(c), TriSeq(r)) THEN {"DRIFT_Triangulation"} ELSE {}
\* layer 3 (diagnostic, clause prefix L3_, never a verdict): the recorded triangulation and the returned path are EXACTLY
\* what the transcription of geom.Shortest (FunnelOps) computes.  Orientations are float64 cross products in the code and
\* integer ones in the model; they agree for certain when the coordinates are exact in binary: the grid is a power of two,
\* or every coordinate is a whole number of units.
ExactInBinary(c) == \/ c.den \in {1, 2, 4, 8, 16, 32, 64}
                    \/ /\ \A i \in DOMAIN c.rects : \A j \in 1..4 : c.rects[i][j] % c.den = 0
                       /\ \A j \in 1..2 : c.s[j] % c.den = 0 /\ c.e[j] % c.den = 0
\* the outline handed to the spline fitter is copied from the rectangles (no arithmetic): predicted exactly on any grid
PolySeq(r) == [i \in DOMAIN r.poly |-> Pt(r.poly[i])]
Poly_L3(c, r) == IF "poly" \in DOMAIN r /\ Len(c.rects) <= 24 /\ PolySeq(r) # MergeRects(RectSeq(c))
                 THEN {"L3_MergeRectsAsModelled"} ELSE {}
C19_L3Applies(c, r) == c.kind = "shortest" /\ r.exact = 1 /\ ExactInBinary(c) /\ Len(c.rects) <= 24
C19_L3(c, r) ==
    IF C19_L3Applies(c, r)
    THEN LET res == Shortest(Pt(c.s), Pt(c.e), RectSeq(c))
         IN (IF "tris" \in DOMAIN r /\ TriSeq(r) # res.tris THEN {"L3_TriangulationAsModelled"} ELSE {})
            \cup (IF res.bad # "" THEN {"L3_ShortestReturnsAsModelled"}
                  ELSE IF res.path # PathSeq(r) THEN {"L3_ShortestPathAsModelled"} ELSE {})
    ELSE {}

\* ------------------------------------------------------------------ C20
\* kind "fit": r.path (end -> start, integer), r.pieces (4 control points each, unit 1/1000), r.joined, r.fin, r.events
\* kind "solve": r.miss, r.extra (distances in units of 1e-7 relative), r.nret
FitTol(c) == 50 * c.den + 5        \* the fitter's vertex tolerance 0.05 plus the rounding slack of the fixed-point evaluation
C20_Applies(c, r) ==
    \/ c.kind = "solve" /\ "nosolve" \notin DOMAIN r      \* (nosolve: the shim could not reach the root finder in this tree)
    \/ /\ c.kind = "fit" /\ WellFormed(RectSeq(c))
       /\ InRect(Pt(c.s), RectSeq(c)[1]) /\ InRect(Pt(c.e), RectSeq(c)[Len(c.rects)])
       /\ Len(r.path) >= 3                                   \* the property is about paths with >= 3 points
       /\ r.exact = 1 /\ IsGeodesicAny(Reverse(PathSeq(r)), Pt(c.s), Pt(c.e), RectSeq(c))   \* ... that are the shortest path (C19's business otherwise)
C20_FitFail(c, r) ==
    LET np == Len(r.path)
        fwd == Reverse(PathSeq(r))
        rp == ReplayFit(np, r.events)
        k == Len(r.pieces)
    IN If(~rp.bad /\ rp.stack = <<>> /\ TilesPath(rp.out, np) /\ Len(rp.out) = k, "RecursionTilesPath")
       \cup If(r.fin = 1 /\ k >= 1, "FinitePieces")
       \cup If(k >= 1 /\ r.pieces[1][1] = <<1000 * fwd[1][1], 1000 * fwd[1][2]>>
                       /\ r.pieces[k][4] = <<1000 * fwd[np][1], 1000 * fwd[np][2]>>, "StartsAndEndsAtPath")
       \cup If(r.joined = 1 /\ \A i \in 1..(k - 1) : r.pieces[i][4] = r.pieces[i + 1][1], "JoinEndToEnd")
       \* every piece joins two path points (its interval of the tiling)
       \cup If(~rp.bad /\ Len(rp.out) = k =>
                 \A i \in 1..k : /\ r.pieces[i][1] = <<1000 * fwd[rp.out[i][1]][1], 1000 * fwd[rp.out[i][1]][2]>>
                                  /\ r.pieces[i][4] = <<1000 * fwd[rp.out[i][2]][1], 1000 * fwd[rp.out[i][2]][2]>>, "PiecesJoinPathPoints")
       \cup If(r.fin = 1 => \A i \in 1..k : PieceContained(r.pieces[i], RectSeq(c), FitTol(c)), "Contained")
C20_Fail(c, r) == IF c.kind = "solve"
                  THEN If(RootsOK_AllFound(c, r), "EveryRealRoot") \cup If(RootsOK_NothingElse(c, r), "NothingButRoots")
                  ELSE C20_FitFail(c, r)
C20_NonTrivial(c, r) == IF c.kind = "solve" THEN Len(r.miss) >= 2 ELSE Len(r.pieces) >= 2

\* ------------------------------------------------------------------ dispatch
Applies(P, c, r) == CASE P = "C19" -> C19_Applies(c, r)
                      [] P = "C20" -> C20_Applies(c, r)
Fail(P, c, r) == CASE P = "C19" -> C19_Fail(c, r) \cup C19_Drift(c, r) \cup C19_L3(c, r) \cup Poly_L3(c, r)
                   [] P = "C20" -> C20_Fail(c, r) \cup (IF c.kind = "fit" THEN Poly_L3(c, r) ELSE {})
NonTrivial(P, c, r) == CASE P = "C19" -> C19_NonTrivial(c, r)
                         [] P = "C20" -> C20_NonTrivial(c, r)
Violations(c, r) == UNION {IF Applies(P, c, r) THEN {<<P, cl>> : cl \in Fail(P, c, r)} ELSE {} : P \in Props}

TraceCall == /\ IsEvent("Call") /\ cur' = Rec.c
             /\ cnt' = [cnt EXCEPT !.calls = @ + 1] /\ Final
TraceReturn ==
    /\ IsEvent("Return") /\ cur # NoCall
    /\ LET V == Violations(cur, Rec)
           J == {P \in Props : Applies(P, cur, Rec)}
           N == {P \in J : NonTrivial(P, cur, Rec)}
       IN /\ (IF V = {} THEN TRUE ELSE PrintT("VIOL " \o ToJson(<<cur.case, V>>)))
          /\ cnt' = [cnt EXCEPT !.returns = @ + 1, !.judged = @ + (IF J # {} THEN 1 ELSE 0),
                                !.unjudged = @ + (IF J = {} THEN 1 ELSE 0),
                                !.nontriv = @ + (IF N # {} THEN 1 ELSE 0), !.viol = @ + (IF V # {} THEN 1 ELSE 0),
                                !.l3 = @ + (IF "C19" \in J /\ C19_L3Applies(cur, Rec) THEN 1 ELSE 0)]
    /\ cur' = NoCall /\ Final
\* a panic or a process abort inside a geometry entry point on a well-formed case is a violation of the property that owns the case
Owner(c) == IF c.kind = "shortest" THEN "C19" ELSE "C20"
TracePanic == /\ IsEvent("Panic") /\ cur # NoCall
              /\ (IF Owner(cur) \in Props THEN PrintT("VIOL " \o ToJson(<<cur.case, {<<Owner(cur), "Panic">>}, Rec.where, Rec.msg>>)) ELSE TRUE)
              /\ cnt' = [cnt EXCEPT !.panics = @ + 1, !.viol = @ + 1] /\ cur' = NoCall /\ Final
TraceAbort == /\ IsEvent("Abort") /\ cur # NoCall
              /\ (IF Owner(cur) \in Props THEN PrintT("VIOL " \o ToJson(<<cur.case, {<<Owner(cur), "Abort_" \o Rec.kind>>}, Rec.where>>)) ELSE TRUE)
              /\ cnt' = [cnt EXCEPT !.aborts = @ + 1, !.viol = @ + 1] /\ cur' = NoCall /\ Final
TraceNext == TraceCall \/ TraceReturn \/ TracePanic \/ TraceAbort
TraceSpec == TraceInit /\ [][TraceNext]_tvars
TraceAccepted == TLCGet("stats").diameter - 1 = Len(Trace)
=============================================================================
