----------------------------- MODULE FunnelOps ------------------------------
(***************************************************************************)
(* Layer 3 of the geometry kernel: geom.Shortest transcribed statement by  *)
(* statement - Triangulate (the special-cased O(n) triangulation of a      *)
(* corridor), Tri.Contains, the dual graph built through the `pmap` of     *)
(* ordered sides, the depth-first search for the crossed diagonals, the    *)
(* trimming of the diagonals the end points lie on, and the funnel loop    *)
(* over the fixed-capacity deque with its INDEX-valued apex.               *)
(*                                                                         *)
(* Points are <<x, y>>, rectangles <<L, T, R, B>> (TL = <<L, T>>, BR =     *)
(* <<R, B>>), triangles <<A, B, C>> whose ID is their position in the      *)
(* sequence (the Go code numbers them 1, 2, ... in the order of creation). *)
(* The Go code computes orientations in float64; on integer coordinates    *)
(* (and on multiples of a power of two) the cross product is exact, so     *)
(* the integer transcription predicts the code exactly there.              *)
(*                                                                         *)
(* Things the code can do other than return are markers in `bad`:          *)
(*   "PANIC_deque"        index out of range in the deque                  *)
(*   "PANIC_disconnected" the explicit panic of the funnel loop            *)
(*   "HANG"               the predecessor chain loops (the Go code would   *)
(*                        append to the path until memory runs out)        *)
(*   "NOSTART"            no triangle contains the start point             *)
(* Funnel.tla explores this module exhaustively on small corridors;        *)
(* GeomTrace.tla predicts recorded triangulations and paths with it.       *)
(***************************************************************************)
EXTENDS Integers, Sequences, FiniteSets, TLC

LOCAL Min2(a, b) == IF a < b THEN a ELSE b
LOCAL Max2(a, b) == IF a < b THEN b ELSE a
EmptyFn == [x \in {} |-> 0]

\* orientation.go: SVG-like coordinates; -1 = ccw, 0 = collinear, 1 = cw
Orient(a, b, c) == LET d == (b[1] - a[1]) * (c[2] - a[2]) - (b[2] - a[2]) * (c[1] - a[1])
                   IN IF d < 0 THEN -1 ELSE IF d > 0 THEN 1 ELSE 0
OnBox(q, r, p) == /\ p[1] >= Min2(q[1], r[1]) /\ p[1] <= Max2(q[1], r[1])
                  /\ p[2] >= Min2(q[2], r[2]) /\ p[2] <= Max2(q[2], r[2])
SegContains(sg, p) == Orient(sg[1], sg[2], p) = 0 /\ OnBox(sg[1], sg[2], p)
SegOther(sg, v) == IF sg[1] = v THEN sg[2] ELSE sg[1]

\* ------------------------------------------------------------------ triangulate.go
TLp(r) == <<r[1], r[2]>>
BRp(r) == <<r[3], r[4]>>
TRp(r) == <<r[3], r[2]>>
BLp(r) == <<r[1], r[4]>>
Rightmost(p1, p2) == IF p1[1] < p2[1] THEN p2 ELSE p1
Leftmost(p1, p2) == IF p1[1] < p2[1] THEN p1 ELSE p2
L2R(p1, p2) == IF p1[1] < p2[1] THEN <<p1, p2>> ELSE <<p2, p1>>
If1(b, t) == IF b THEN <<t>> ELSE <<>>

\* the triangles appended in iteration i (1-based) of the loop over the rectangles, in order
TrisAt(rs, i) ==
    LET n == Len(rs)
        r1 == rs[i]
        hasNext == i < n
        ab == IF hasNext THEN L2R(BRp(r1), TRp(rs[i + 1])) ELSE <<BRp(r1), <<0, 0>>>>
        a == ab[1]
        b == ab[2]
        leftMerge == i > 1 /\ r1[1] < rs[i - 1][1]
        rightMerge == i > 1 /\ rs[i - 1][3] < r1[3]
        hasMerge == leftMerge \/ rightMerge
        pLeft == IF leftMerge
                 THEN LET s == <<rs[i - 1][1], r1[2]>>
                          c == Leftmost(BRp(rs[i - 1]), TRp(r1))
                      IN <<<<a, s, c>>, <<a, TLp(r1), s>>>>
                 ELSE <<>>
        pRight == IF rightMerge
                  THEN LET s == <<rs[i - 1][3], r1[2]>>
                       IN <<<<a, s, TRp(r1)>>>> \o If1(~leftMerge, <<a, TLp(r1), s>>)
                  ELSE <<>>
        pLast == IF i > 1 /\ i = n
                 THEN <<<<BRp(r1), TLp(r1), BLp(r1)>>>> \o If1(~hasMerge, <<TLp(r1), BRp(r1), TRp(r1)>>)
                 ELSE <<>>
        pNext == IF hasNext
                 THEN LET r2 == rs[i + 1]
                      IN If1(r1[3] > r2[3], <<a, TRp(r1), b>>)                        \* split point on the right chain
                         \o <<<<a, Rightmost(BLp(r1), TLp(r2)), TLp(r1)>>>>            \* horizontal diagonal
                         \o If1(~hasMerge, <<TLp(r1), a, TRp(r1)>>)
                         \o If1(r1[1] < r2[1], <<TLp(r2), TLp(r1), BLp(r1)>>)          \* split point on the left chain
                 ELSE <<>>
    IN pLeft \o pRight \o pLast \o pNext

RECURSIVE TrisFrom(_, _)
TrisFrom(rs, i) == IF i > Len(rs) THEN <<>> ELSE TrisAt(rs, i) \o TrisFrom(rs, i + 1)
Triangulate(rs) == IF Len(rs) = 1
                   THEN <<<<BRp(rs[1]), TLp(rs[1]), TRp(rs[1])>>, <<BRp(rs[1]), TLp(rs[1]), BLp(rs[1])>>>>
                   ELSE TrisFrom(rs, 1)

\* ------------------------------------------------------------------ polygon.go: MergeRects
\* the outline of the corridor, counterclockwise in SVG coordinates: the left chain top-down, then the right chain bottom-up
RECURSIVE LeftChain(_, _), RightChain(_, _)
LeftChain(rs, i) == IF i > Len(rs) THEN <<BLp(rs[Len(rs)])>>
                    ELSE (IF i = 1 THEN <<TLp(rs[1])>>
                          ELSE IF rs[i - 1][1] # rs[i][1] THEN <<<<rs[i - 1][1], rs[i][2]>>, TLp(rs[i])>>
                          ELSE <<TLp(rs[i])>>) \o LeftChain(rs, i + 1)
RightChain(rs, i) == IF i > Len(rs) THEN <<BRp(rs[Len(rs)])>>
                     ELSE (IF i = 1 THEN <<TRp(rs[1])>>
                           ELSE IF rs[i - 1][3] # rs[i][3] THEN <<BRp(rs[i - 1]), <<rs[i][3], rs[i - 1][4]>>>>
                           ELSE <<BRp(rs[i - 1])>>) \o RightChain(rs, i + 1)
SeqReverse(q) == [i \in DOMAIN q |-> q[Len(q) + 1 - i]]
MergeRects(rs) == LeftChain(rs, 1) \o SeqReverse(RightChain(rs, 1))
PolySides(pts) == [i \in DOMAIN pts |-> <<pts[i], pts[(i % Len(pts)) + 1]>>]

\* ------------------------------------------------------------------ triangle.go
RECURSIVE ContainsFrom(_, _, _, _)
ContainsFrom(t, p, i, s) ==
    IF i > 3 THEN s = 3 \/ s = 0
    ELSE LET q == t[i]
             r == t[(i % 3) + 1]
             o == Orient(q, r, p)
         IN IF o = 0 THEN OnBox(q, r, p)             \* the early return of Tri.Contains: on the LINE through a side
            ELSE ContainsFrom(t, p, i + 1, IF o # 1 THEN s + 1 ELSE s)
TriContains(t, p) == ContainsFrom(t, p, 1, 0)

\* side i in 0..2, end points ordered by x, then by y
OrderedSide(t, i) == LET a == t[i + 1]
                         b == t[((i + 1) % 3) + 1]
                     IN IF a[1] < b[1] THEN <<a, b>>
                        ELSE IF b[1] < a[1] THEN <<b, a>>
                        ELSE IF a[2] < b[2] THEN <<a, b>> ELSE <<b, a>>

\* `start = t` is assigned for every triangle that contains the point: the LAST one wins; 0 = the zero Tri
LastContaining(ts, p) == LET S == {i \in DOMAIN ts : TriContains(ts[i], p)}
                         IN IF S = {} THEN 0 ELSE CHOOSE i \in S : \A j \in S : j <= i

\* ------------------------------------------------------------------ shortest.go: dualGraph
\* pm: ordered side -> ID of the first triangle seen with it; adj: <<i, j>> -> the common side (absent = nil)
RECURSIVE DualFrom(_, _, _, _, _)
DualFrom(ts, k, i, pm, adj) ==
    IF k > Len(ts) THEN adj
    ELSE IF i > 2 THEN DualFrom(ts, k + 1, 0, pm, adj)
    ELSE LET side == OrderedSide(ts[k], i)
         IN IF side \in DOMAIN pm
            THEN DualFrom(ts, k, i + 1, pm, (<<k, pm[side]>> :> side) @@ (<<pm[side], k>> :> side) @@ adj)
            ELSE DualFrom(ts, k, i + 1, (side :> k) @@ pm, adj)
Dual(start, ts) == DualFrom(ts, 1, 0, (OrderedSide(ts[start], 0) :> start), EmptyFn)

\* ------------------------------------------------------------------ shortest.go: crossedDiagonals
\* depth-first over the rows of the matrix (triangle IDs 0..n in increasing order); `visited` is shared by all branches
RECURSIVE CD(_, _, _, _, _), CDLoop(_, _, _, _, _, _)
CD(s, e, adj, n, vis) == IF s = e THEN [found |-> TRUE, out |-> <<>>, vis |-> vis]
                         ELSE CDLoop(s, e, adj, n, vis \cup {s}, 0)
CDLoop(s, e, adj, n, vis, tid) ==
    IF tid > n THEN [found |-> FALSE, out |-> <<>>, vis |-> vis]
    ELSE IF <<s, tid>> \in DOMAIN adj /\ tid \notin vis
         THEN LET r == CD(tid, e, adj, n, vis)
              IN IF r.found THEN [found |-> TRUE, out |-> <<adj[<<s, tid>>]>> \o r.out, vis |-> r.vis]
                 ELSE CDLoop(s, e, adj, n, r.vis, tid + 1)
         ELSE CDLoop(s, e, adj, n, vis, tid + 1)

RECURSIVE TrimFront(_, _), TrimBack(_, _)
TrimFront(dl, p) == IF Len(dl) > 0 /\ SegContains(dl[1], p) THEN TrimFront(Tail(dl), p) ELSE dl
TrimBack(dl, p) == IF Len(dl) > 0 /\ SegContains(dl[Len(dl)], p) THEN TrimBack(SubSeq(dl, 1, Len(dl) - 1), p) ELSE dl

\* ------------------------------------------------------------------ collectors/deque.go + the funnel
\* q = [f, b: front / back INDEX, d: the backing array 0..cap-1 (popped slots keep their value), apex: an INDEX,
\*      pred: the predecessor map, bad: marker, lo / hi: lowest front / highest back index ever used]
QLen(q) == q.b - q.f + 1
PeekF(q, i) == q.d[q.f + i - 1]
PeekB(q, i) == q.d[q.b - i + 1]
Cap(q) == Cardinality(DOMAIN q.d)
PushF(q, x) == IF q.bad # "" THEN q
               ELSE IF q.f = 0 THEN [q EXCEPT !.bad = "PANIC_deque"]
               ELSE [q EXCEPT !.f = q.f - 1, !.d[q.f - 1] = x, !.lo = Min2(q.lo, q.f - 1)]
PushB(q, x) == IF q.bad # "" THEN q
               ELSE IF q.b + 1 >= Cap(q) THEN [q EXCEPT !.bad = "PANIC_deque"]
               ELSE [q EXCEPT !.b = q.b + 1, !.d[q.b + 1] = x, !.hi = Max2(q.hi, q.b + 1)]
NewDeque(size) == [f |-> size, b |-> size - 1, d |-> [i \in 0..(2 * size - 1) |-> <<0, 0>>], apex |-> 0,
                   pred |-> EmptyFn, bad |-> "", lo |-> size, hi |-> size - 1]

OutsideLeft(q, v) == IF QLen(q) < 2 THEN TRUE
                     ELSE LET d == Orient(PeekF(q, 2), PeekF(q, 1), v)
                          IN (q.f < q.apex /\ d # -1) \/ (q.f >= q.apex /\ d # 1)
OutsideRight(q, v) == IF QLen(q) < 2 THEN TRUE
                      ELSE LET d == Orient(PeekB(q, 2), PeekB(q, 1), v)
                           IN (q.b > q.apex /\ d # 1) \/ (q.b <= q.apex /\ d # -1)
RECURSIVE ShrinkL(_, _), ShrinkR(_, _)
ShrinkL(q, v) == IF OutsideLeft(q, v) THEN q ELSE ShrinkL([q EXCEPT !.f = q.f + 1], v)
ShrinkR(q, v) == IF OutsideRight(q, v) THEN q ELSE ShrinkR([q EXCEPT !.b = q.b - 1], v)

CommonVertex(d1, d2) == IF d1[1] = d2[1] \/ d1[2] = d2[1] THEN d2[1] ELSE d2[2]

\* one iteration of the funnel loop: diagonals dprev, dcur
FunnelStep(q, dprev, dcur) ==
    LET c == CommonVertex(dprev, dcur)
        v == SegOther(dcur, c)
    IN IF q.bad # "" THEN q
       ELSE IF PeekB(q, 1) = c
            THEN LET q1 == ShrinkL(q, v)
                     q2 == IF q1.f > q1.apex THEN [q1 EXCEPT !.apex = q1.f] ELSE q1
                 IN PushF([q2 EXCEPT !.pred = (v :> PeekF(q2, 1)) @@ q2.pred], v)
       ELSE IF PeekF(q, 1) = c
            THEN LET q1 == ShrinkR(q, v)
                     q2 == IF q1.b < q1.apex THEN [q1 EXCEPT !.apex = q1.b] ELSE q1
                 IN PushB([q2 EXCEPT !.pred = (v :> PeekB(q2, 1)) @@ q2.pred], v)
       ELSE [q EXCEPT !.bad = "PANIC_disconnected"]
RECURSIVE FunnelFrom(_, _, _)
FunnelFrom(q, dl, i) == IF i > Len(dl) THEN q ELSE FunnelFrom(FunnelStep(q, dl[i - 1], dl[i]), dl, i + 1)

RECURSIVE Walk(_, _, _, _)
Walk(pred, u, acc, fuel) == IF u \in DOMAIN pred
                            THEN IF fuel = 0 THEN <<>> ELSE Walk(pred, pred[u], Append(acc, u), fuel - 1)
                            ELSE Append(acc, u)

\* ------------------------------------------------------------------ shortest.go: Shortest
Result(path, bad, ts, nd, q) == [path |-> path, bad |-> bad, tris |-> ts, ndiag |-> nd, lo |-> q.lo, hi |-> q.hi, cap |-> Cap(q)]
Shortest(p1, p2, rs) ==
    LET ts == Triangulate(rs)
        start == LastContaining(ts, p1)
        end == LastContaining(ts, p2)
        q0 == NewDeque(2 * Len(rs))
    IN IF start = end THEN Result(<<p2, p1>>, "", ts, 0, q0)
       ELSE IF start = 0 THEN Result(<<>>, "NOSTART", ts, 0, q0)
       ELSE
       LET adj == Dual(start, ts)
           cd == CD(start, end, adj, Len(ts), {})
           dl0 == TrimBack(TrimFront(IF cd.found THEN cd.out ELSE <<>>, p1), p2)
       IN IF Len(dl0) = 0 THEN Result(<<p2, p1>>, "", ts, 0, q0)
          ELSE
          LET dl == Append(dl0, <<dl0[Len(dl0)][1], p2>>)
              qa == PushF(q0, p1)
              qb == [qa EXCEPT !.apex = qa.f]
              qc == IF Orient(p1, dl[1][1], dl[1][2]) = -1 THEN PushB(PushF(qb, dl[1][1]), dl[1][2])
                                                          ELSE PushB(PushF(qb, dl[1][2]), dl[1][1])
              qz == FunnelFrom(qc, dl, 2)
              w == Walk(qz.pred, p2, <<>>, Cardinality(DOMAIN qz.pred) + 1)
              path == IF w = <<>> THEN w ELSE IF w[Len(w)] # p1 THEN Append(w, p1) ELSE w
          IN Result(path, IF qz.bad # "" THEN qz.bad ELSE IF w = <<>> THEN "HANG" ELSE "", ts, Len(dl), qz)
=============================================================================
