------------------------------- MODULE Funnel -------------------------------
(***************************************************************************)
(* Exhaustive exploration of the transcription of geom.Shortest            *)
(* (FunnelOps.tla) on every well-formed corridor of a small bound and      *)
(* every pair of lattice end points: the DESIGN of triangulation + funnel  *)
(* establishes property C19 - the returned polyline is the geodesic        *)
(* (CorridorOps!IsGeodesicAny) - and does none of the things the code can  *)
(* do instead of returning.  The same transcription predicts the recorded  *)
(* triangulations and paths of the real code in GeomTrace.tla.             *)
(***************************************************************************)
EXTENDS CorridorOps, FunnelOps

CONSTANTS MaxRects, XMax, Heights,
          XShift, YShift \* the corridor's x range is -XShift..XMax-XShift and its top is at -YShift (a door corner at the origin -
                         \* the zero value of the code's point type - needs negative coordinates; a cfg file cannot say -2)
XOff == 0 - XShift
YOff == 0 - YShift

VARIABLES rs, s, e, pc
vars == <<rs, s, e, pc>>
None == <<-1000, -1000>>

Rects(top) == {<<l, top, r, top + h>> : <<l, r>> \in {lr \in (XOff..(XOff + XMax)) \X (XOff..(XOff + XMax)) : lr[1] < lr[2]}, h \in Heights}
Init == rs = <<>> /\ s = None /\ e = None /\ pc = "build"
AddRect == /\ pc = "build" /\ Len(rs) < MaxRects
           /\ \E q \in Rects(IF rs = <<>> THEN YOff ELSE rs[Len(rs)][4]) :
                 /\ WellFormed(Append(rs, q))
                 /\ rs' = Append(rs, q)
           /\ UNCHANGED <<s, e, pc>>
Lattice(r) == {<<x, y>> : x \in r[1]..r[3], y \in r[2]..r[4]}
\* the start point anywhere in the first, the end point anywhere in the last rectangle (for one rectangle: any two points)
Pick == /\ pc = "build" /\ rs # <<>>
        /\ \E p1 \in Lattice(rs[1]), p2 \in Lattice(rs[Len(rs)]) : s' = p1 /\ e' = p2
        /\ pc' = "picked" /\ UNCHANGED rs
Next == AddRect \/ Pick
Spec == Init /\ [][Next]_vars

Res == Shortest(s, e, rs)

\* --- the triangulation
TriangulationTiles == rs # <<>> => TriangulationOK(rs, Triangulate(rs))
\* at most four triangles per rectangle (the capacity the Go code reserves)
TriangleCount == rs # <<>> => Len(Triangulate(rs)) <= 4 * Len(rs) /\ Len(Triangulate(rs)) >= 2 * Len(rs)
\* every lattice point of the corridor lies in some triangle
EveryPointCovered == rs # <<>> => \A i \in DOMAIN rs : \A p \in Lattice(rs[i]) : LastContaining(Triangulate(rs), p) # 0
\* the dual graph is a tree: the triangles' adjacency through common sides connects them all with n - 1 links
DualPairs(adj) == {pr \in DOMAIN adj : pr[1] < pr[2]}
DualIsTree == pc = "picked" /\ LastContaining(Triangulate(rs), s) # 0 =>
                 LET ts == Triangulate(rs) adj == Dual(LastContaining(ts, s), ts)
                 IN Cardinality(DualPairs(adj)) = Len(ts) - 1
                    /\ \A t \in DOMAIN ts : CD(LastContaining(ts, s), t, adj, Len(ts), {}).found

\* --- the merged polygon (the barriers of the spline fitter)
Poly == MergeRects(rs)
RECURSIVE Shoelace(_, _)
Shoelace(pts, i) == IF i > Len(pts) THEN 0
                    ELSE LET a == pts[i] b == pts[(i % Len(pts)) + 1] IN a[1] * b[2] - b[1] * a[2] + Shoelace(pts, i + 1)
\* a closed rectilinear outline with the corridor's area whose sides all lie in the corridor, alternate between vertical
\* and horizontal except where a chain runs straight on, and never have length zero; it fits the array the code reserves
PolygonIsOutline == rs # <<>> =>
    /\ Len(Poly) <= 4 * Len(rs) /\ Len(Poly) >= 4
    /\ \A i \in DOMAIN Poly : LET sd == PolySides(Poly)[i] IN
           /\ sd[1] # sd[2] /\ (sd[1][1] = sd[2][1] \/ sd[1][2] = sd[2][2])
           /\ SegInside(sd[1], sd[2], rs)
    /\ Shoelace(Poly, 1) = -RectArea2(rs, 1)          \* counterclockwise on screen = negative in a y-down frame
\* every reflex corner of the corridor (the only places a geodesic can bend) is a vertex of the outline
CornersOnOutline == rs # <<>> => \A v \in Corners(rs) : \E i \in DOMAIN Poly : Poly[i] = v

\* --- the funnel
Returns == pc = "picked" => Res.bad = ""
EndToStart == pc = "picked" => Len(Res.path) >= 2 /\ Res.path[1] = e /\ Res.path[Len(Res.path)] = s
IsShortest == pc = "picked" => IsGeodesicAny(Reverse(Res.path), s, e, rs)
\* the deque uses at most half of the slots it reserves on either side (2 * rectangles each): the funnel holds the start
\* point and at most one vertex per door on a side
DequeFits == pc = "picked" => LET size == Res.cap \div 2 IN size - Res.lo <= Len(rs) + 1 /\ Res.hi - (size - 1) <= Len(rs) + 1

\* goal predicates (their negations are checked to be VIOLATED: the bound reaches the interesting states)
GoalBend == ~(pc = "picked" /\ Len(Norm(Res.path)) >= 4)
GoalTrim == ~(pc = "picked" /\ Res.ndiag >= 2 /\ Res.ndiag < Len(rs))
=============================================================================
