----------------------------- MODULE SplineFit ------------------------------
(***************************************************************************)
(* The recursion of geom.FitSpline as a transition system (property C20),  *)
(* and the containment predicate evaluated on recorded control points.     *)
(*                                                                         *)
(* FitSpline(path):  try to fit ONE cubic to the whole path (tryfit);      *)
(*   ok      -> emit the piece;                                            *)
(*   not ok  -> split at the interior point k of maximum error and recurse *)
(*              on path[..k] and path[k..], which share point k (and the   *)
(*              tangent there), upper part first.                          *)
(* A path of two points is always fitted (the curve degenerates into the   *)
(* segment).  State: the stack of pending sub-paths as index intervals     *)
(* <<a, b>> into the path, and the intervals of the pieces emitted so far. *)
(*                                                                         *)
(* The step function FitStep is used twice: by the Next action below       *)
(* (TLC explores every shape of the recursion for paths up to MaxPath      *)
(* points: Tiles, Termination) and by ReplayFit, which replays the Fit /   *)
(* Split events recorded from the real FitSpline through the hook H4.      *)
(***************************************************************************)
EXTENDS SplineFitOps, TLC

\* ------------------------------------------------------------------ exhaustive exploration of the recursion
CONSTANT MaxPath
VARIABLES plen, fst, pend
fvars == <<plen, fst, pend>>
FInit == plen \in 2..MaxPath /\ fst = FitInit(plen) /\ pend = FALSE
FNext == /\ fst.stack # <<>> /\ ~fst.bad
         /\ LET top == Head(fst.stack) len == top[2] - top[1] + 1 IN
            \/ /\ ~pend /\ \E ok \in {0, 1} : (len = 2 => ok = 1) /\
                     fst' = FitStep(fst, [k |-> "Fit", n |-> len, ok |-> ok], FALSE) /\ pend' = (ok = 0)
            \/ /\ pend /\ \E at \in 1..(len - 2) :
                     fst' = FitStep(fst, [k |-> "Split", n |-> len, at |-> at], TRUE) /\ pend' = FALSE
         /\ UNCHANGED plen
FSpec == FInit /\ [][FNext]_fvars /\ WF_fvars(FNext)
NeverBad == ~fst.bad
TilesWhenDone == (fst.stack = <<>>) => TilesPath(fst.out, plen)
\* pending work only shrinks: the variant (sum over the stack of (length - 2) * 2 + 1, plus 1 while a split is pending) decreases
RECURSIVE Work(_)
Work(s) == IF s = <<>> THEN 0 ELSE 2 * (Head(s)[2] - Head(s)[1] + 1) - 3 + Work(Tail(s))
Variant == 2 * Work(fst.stack) + (IF pend THEN 0 ELSE 1)
Decreases == [][fst'.stack # fst.stack \/ pend' # pend => 2 * Work(fst'.stack) + (IF pend' THEN 0 ELSE 1) < Variant]_fvars
Termination == <>(fst.stack = <<>>)

=============================================================================
