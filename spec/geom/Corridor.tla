------------------------------ MODULE Corridor ------------------------------
(***************************************************************************)
(* Corridors and their geodesics (property C19).                           *)
(*                                                                         *)
(* A corridor is a sequence of axis-parallel rectangles <<L, T, R, B>>     *)
(* with integer corners, stacked top to bottom (T of the next = B of the   *)
(* previous), consecutive ones sharing a door of positive length.  Points  *)
(* are <<x, y>>; y grows downwards as in the library.                      *)
(*                                                                         *)
(* IsGeodesic(path, s, e, rs) decides "path is the Euclidean shortest path *)
(* from s to e inside the corridor" WITHOUT square roots: the union of the *)
(* rectangles is a simple polygon, in which a path that stays inside and   *)
(* is locally shortest (taut) is the unique shortest path.  A path is taut *)
(* iff, after dropping repeated and collinear points, every interior       *)
(* vertex is a reflex corner of the corridor and the path turns around it  *)
(* on the wall side.                                                       *)
(*                                                                         *)
(* The criterion itself is model-checked at small scope (Unique,           *)
(* NoShorterInside): for every corridor and every pair of end points of    *)
(* the bounded model exactly one candidate vertex sequence satisfies it,   *)
(* and no other inside sequence is provably shorter (interval arithmetic). *)
(* The same transition system, in generator mode, prints every corridor    *)
(* of the bound (spec -> code).                                            *)
(***************************************************************************)
EXTENDS CorridorOps, TLC, Json

CONSTANTS MaxRects,   \* corridors of 1..MaxRects rectangles
          XMax,       \* x coordinates range over 0..XMax
          Heights,    \* set of rectangle heights
          Mode        \* "generate" | "criterion"

\* ------------------------------------------------------------------ transition system: build a corridor, pick end points
VARIABLES rs, s, e, pc
vars == <<rs, s, e, pc>>
None == <<-1, -1>>

Rects(top) == {<<l, top, r, top + h>> : <<l, r>> \in {lr \in (0..XMax) \X (0..XMax) : lr[1] < lr[2]}, h \in Heights}

Init == rs = <<>> /\ s = None /\ e = None /\ pc = "build"
AddRect == /\ pc = "build" /\ Len(rs) < MaxRects
           /\ \E q \in Rects(IF rs = <<>> THEN 0 ELSE rs[Len(rs)][4]) :
                 /\ WellFormed(Append(rs, q))
                 /\ rs' = Append(rs, q)
           /\ UNCHANGED <<s, e, pc>>
Lattice(r) == {<<x, y>> : x \in r[1]..r[3], y \in r[2]..r[4]}
Pick == /\ Mode = "criterion" /\ pc = "build" /\ rs # <<>>
        /\ \E p1 \in Lattice(rs[1]), p2 \in Lattice(rs[Len(rs)]) : p1[2] <= p2[2] /\ s' = p1 /\ e' = p2
        /\ pc' = "picked" /\ UNCHANGED rs
Next == AddRect \/ Pick
Spec == Init /\ [][Next]_vars

\* criterion checks (Mode = "criterion")
Geodesics == {p \in Candidates(s, e, rs) : IsGeodesic(p, s, e, rs)}
Unique == pc = "picked" => Cardinality({Norm(p) : p \in Geodesics}) = 1
NoShorterInside == pc = "picked" =>
    \A g \in Geodesics : \A p \in Candidates(s, e, rs) : Inside(p, rs) => ~(LenHi(Norm(p)) < LenLo(Norm(g)))

\* generator (Mode = "generate"): every well-formed corridor of the bound, once
Gen == (Mode = "generate" /\ rs # <<>>) => PrintT("GEN " \o ToJson([rects |-> rs]))
=============================================================================
