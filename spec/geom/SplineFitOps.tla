---------------------------- MODULE SplineFitOps ----------------------------
(***************************************************************************)
(* Pure operators for the FitSpline recursion (step function FitStep,      *)
(* replay of recorded Fit/Split events, tiling) and the fixed-point        *)
(* containment predicate; see SplineFit.tla.                               *)
(***************************************************************************)
EXTENDS Integers, Sequences, FiniteSets

\* ------------------------------------------------------------------ the recursion as a step function
\* st = [stack |-> sequence of <<a, b>>, out |-> sequence of <<a, b>>, bad |-> BOOLEAN]
FitInit(n) == [stack |-> <<<<1, n>>>>, out |-> <<>>, bad |-> FALSE]
\* event: [k |-> "Fit", n, ok]  or  [k |-> "Split", n, at]   (n = number of points of the sub-path; at = 0-based split index)
FitStep(st, ev, pendingSplit) ==
    IF st.bad \/ st.stack = <<>> THEN [st EXCEPT !.bad = TRUE]
    ELSE LET top == Head(st.stack) a == top[1] b == top[2] len == b - a + 1 IN
         IF ev.k = "Fit" THEN
             IF pendingSplit \/ ev.n # len THEN [st EXCEPT !.bad = TRUE]
             ELSE IF ev.ok = 1 THEN [st EXCEPT !.stack = Tail(@), !.out = Append(@, top)]
             ELSE IF len = 2 THEN [st EXCEPT !.bad = TRUE]             \* two points must always fit
             ELSE st                                                   \* a Split of the same sub-path must follow
         ELSE \* Split
             IF ~pendingSplit \/ ev.n # len \/ ev.at < 1 \/ ev.at > len - 2 THEN [st EXCEPT !.bad = TRUE]
             ELSE [st EXCEPT !.stack = <<<<a, a + ev.at>>, <<a + ev.at, b>>>> \o Tail(@)]
RECURSIVE ReplayFrom(_, _, _, _)
ReplayFrom(st, evs, i, pending) ==
    IF i > Len(evs) THEN [st EXCEPT !.bad = @ \/ pending]
    ELSE LET ev == evs[i]
             st2 == FitStep(st, ev, pending)
             pend2 == ev.k = "Fit" /\ ev.ok = 0
         IN ReplayFrom(st2, evs, i + 1, pend2)
ReplayFit(n, evs) == ReplayFrom(FitInit(n), evs, 1, FALSE)

\* the emitted pieces tile the path: <<1,k1>>, <<k1,k2>>, ..., <<km,n>>
TilesPath(out, n) == /\ Len(out) >= 1 /\ out[1][1] = 1 /\ out[Len(out)][2] = n
                     /\ \A i \in 1..(Len(out) - 1) : out[i][2] = out[i + 1][1]
                     /\ \A i \in DOMAIN out : out[i][1] < out[i][2]

\* ------------------------------------------------------------------ containment in fixed point (unit = 1/1000 of the case's integer unit)
Lerp(a, b, j) == (a * (64 - j) + b * j) \div 64
\* de Casteljau at t = j/64 with integer rounding at each of the three levels (error <= 3 units)
BezierAt(pc, j) ==
    LET x(i) == pc[i][1]  y(i) == pc[i][2]
        ax == Lerp(x(1), x(2), j) bx == Lerp(x(2), x(3), j) cx == Lerp(x(3), x(4), j)
        ay == Lerp(y(1), y(2), j) by == Lerp(y(2), y(3), j) cy == Lerp(y(3), y(4), j)
        dx == Lerp(ax, bx, j) ex == Lerp(bx, cx, j) dy == Lerp(ay, by, j) ey == Lerp(by, cy, j)
    IN <<Lerp(dx, ex, j), Lerp(dy, ey, j)>>
\* q within the union of the rectangles (integer corners, scaled by 1000) grown by tol
NearCorridor(q, rects, tol) == \E i \in DOMAIN rects :
    /\ rects[i][1] * 1000 - tol <= q[1] /\ q[1] <= rects[i][3] * 1000 + tol
    /\ rects[i][2] * 1000 - tol <= q[2] /\ q[2] <= rects[i][4] * 1000 + tol
PieceContained(pc, rects, tol) == \A j \in 0..64 : NearCorridor(BezierAt(pc, j), rects, tol)
=============================================================================
