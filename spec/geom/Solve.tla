-------------------------------- MODULE Solve --------------------------------
(***************************************************************************)
(* The polynomial root finder behind curve/boundary intersection           *)
(* (geom.solve3 / solve2 / solve1), property C20, second sentence:         *)
(* "returns every real root and nothing that is not a root".               *)
(*                                                                         *)
(* Polynomials are BUILT FROM THEIR ROOTS, so the expected real-root set   *)
(* is known by construction.  Roots are half-integers n/2; with leading    *)
(* coefficient a = an/ad                                                   *)
(*   a (x - n1/2)(x - n2/2)(x - n3/2)                                      *)
(*     = (an / (8 ad)) (8x^3 - 4(n1+n2+n3)x^2 + 2(n1n2+n1n3+n2n3)x - n1n2n3) *)
(* Complex pairs come from irreducible quadratics x^2 + bx + c.  Vanishing *)
(* leading coefficients around the solver's epsilon (1e-7) are obtained    *)
(* with a third root far away: a (x - r1)(x - r2)(x + 1/a).                *)
(* TLC enumerates the family and prints one case per polynomial (spec ->   *)
(* code); the driver calls the solver and measures, with exact rational    *)
(* arithmetic, the distance of every expected root to the nearest returned *)
(* value and of every returned value to the nearest expected root, in      *)
(* units of 1e-7 * max(1, |root|).  RootsOK judges those numbers.          *)
(***************************************************************************)
EXTENDS SolveOps, FiniteSets, TLC, Json

CONSTANTS RootMax       \* the half-integer roots are n/2 with n in -RootMax..RootMax
RootNums == (-RootMax)..RootMax
Leads == {<<1, 1>>, <<-2, 1>>, <<1, 2>>, <<3, 7>>}     \* leading coefficients <<an, ad>>


\* coefficients c0..c3 as <<num, den>>
Cubic(an, ad, n1, n2, n3) ==
    <<<<-(an * n1 * n2 * n3), 8 * ad>>, <<2 * an * (n1 * n2 + n1 * n3 + n2 * n3), 8 * ad>>,
      <<-(4 * an * (n1 + n2 + n3)), 8 * ad>>, <<8 * an, 8 * ad>>>>
Quadratic(an, ad, n1, n2) ==
    <<<<an * n1 * n2, 4 * ad>>, <<-(2 * an * (n1 + n2)), 4 * ad>>, <<4 * an, 4 * ad>>, <<0, 1>>>>
Linear(an, ad, n1) == <<<<-(an * n1), 2 * ad>>, <<2 * an, 2 * ad>>, <<0, 1>>, <<0, 1>>>>
\* a (x - n1/2)(x^2 + b x + c) with b^2 < 4c: one real root
WithComplexPair(an, ad, n1, b, c) ==
    <<<<-(an * n1 * c), 2 * ad>>, <<an * (2 * c - n1 * b), 2 * ad>>, <<an * (2 * b - n1), 2 * ad>>, <<2 * an, 2 * ad>>>>
\* leading coefficient 1/k (k large): (1/k)(x - n1/2)(x - n2/2)(x + k) -- a third root far away at -k
TinyLead(k, n1, n2) ==
    <<<<n1 * n2, 4>>, <<n1 * n2 - 2 * k * (n1 + n2), 4 * k>>, <<4 * k - 2 * (n1 + n2), 4 * k>>, <<4, 4 * k>>>>

SetToSeq(S) == CHOOSE q \in [1..Cardinality(S) -> S] : \A x \in S : \E i \in DOMAIN q : q[i] = x
\* the distinct real roots of a sequence of half-integer numerators, each as <<numerator, 2, multiplicity>>
RootsOf(ns) == SetToSeq({<<x, 2, Cardinality({i \in DOMAIN ns : ns[i] = x})>> : x \in {ns[i] : i \in DOMAIN ns}})

Triples == {t \in RootNums \X RootNums \X RootNums : t[1] <= t[2] /\ t[2] <= t[3]}
Pairs == {t \in RootNums \X RootNums : t[1] <= t[2]}
Cases ==
    {[kind |-> "solve", tag |-> "cubic", coef |-> Cubic(a[1], a[2], t[1], t[2], t[3]), roots |-> RootsOf(<<t[1], t[2], t[3]>>)] :
        a \in Leads, t \in Triples}
    \cup {[kind |-> "solve", tag |-> "quadratic", coef |-> Quadratic(a[1], a[2], t[1], t[2]), roots |-> RootsOf(<<t[1], t[2]>>)] :
        a \in Leads, t \in Pairs}
    \cup {[kind |-> "solve", tag |-> "linear", coef |-> Linear(a[1], a[2], n1), roots |-> RootsOf(<<n1>>)] : a \in Leads, n1 \in RootNums}
    \cup {[kind |-> "solve", tag |-> "complexpair", coef |-> WithComplexPair(a[1], a[2], n1, bc[1], bc[2]), roots |-> RootsOf(<<n1>>)] :
        a \in Leads, n1 \in RootNums, bc \in {<<0, 1>>, <<1, 1>>, <<-2, 5>>, <<3, 4>>, <<0, 9>>}}
    \cup {[kind |-> "solve", tag |-> "tinylead", coef |-> TinyLead(k, n1, n2),
           roots |-> RootsOf(<<n1, n2>>) \o <<<<-k, 1, 1>>>>] :
        k \in {1000, 100000, 2000000, 5000000, 9000000}, n1 \in {-4, -2, 1, 2, 3}, n2 \in {2, 3, 6}}
    \* below the solver's epsilon the cubic term is ignored on purpose: the quadratic's roots are expected
    \cup {[kind |-> "solve", tag |-> "belowepsilon", coef |-> <<<<n1 * n2, 4>>, <<-(2 * (n1 + n2)), 4>>, <<4, 4>>, <<1, k>>>>,
           roots |-> RootsOf(<<n1, n2>>)] : k \in {20000000, 1000000000}, n1 \in {-4, 1, 3}, n2 \in {2, 5}}

VARIABLE done
Init == done = FALSE
Next == ~done /\ done' = TRUE /\ \A c \in Cases : PrintT("GEN " \o ToJson(c))
Spec == Init /\ [][Next]_done

=============================================================================
