---------------------------- MODULE CorridorOps -----------------------------
(***************************************************************************)
(* Pure operators on corridors (sequences of stacked rectangles) and the   *)
(* square-root-free geodesic criterion IsGeodesic; see Corridor.tla for    *)
(* the explanation, the small-scope check of the criterion and the         *)
(* generator.  Used by Corridor.tla and by the trace specification         *)
(* GeomTrace.tla.                                                          *)
(***************************************************************************)
EXTENDS Integers, Sequences, FiniteSets

\* ------------------------------------------------------------------ geometry
InRect(p, r) == r[1] <= p[1] /\ p[1] <= r[3] /\ r[2] <= p[2] /\ p[2] <= r[4]
RectsOf(p, rs) == {i \in DOMAIN rs : InRect(p, rs[i])}
DoorA(rs, t) == IF rs[t][1] > rs[t + 1][1] THEN rs[t][1] ELSE rs[t + 1][1]   \* max of the two left sides
DoorB(rs, t) == IF rs[t][3] < rs[t + 1][3] THEN rs[t][3] ELSE rs[t + 1][3]   \* min of the two right sides
DoorY(rs, t) == rs[t][4]

WellFormed(rs) == /\ Len(rs) >= 1
                  /\ \A i \in DOMAIN rs : rs[i][1] < rs[i][3] /\ rs[i][2] < rs[i][4]
                  /\ \A t \in 1..(Len(rs) - 1) : rs[t + 1][2] = rs[t][4] /\ DoorA(rs, t) < DoorB(rs, t)

\* segment u -> w with u.y <= w.y: every door between the two rectangles is crossed inside the door
CrossOK(u, w, rs, t) ==
    LET yb == DoorY(rs, t) a == DoorA(rs, t) b == DoorB(rs, t) dy == w[2] - u[2]
    IN IF dy = 0 THEN u[2] = yb    \* along the door line: the bottom side of one rectangle and the top side of the
                                   \* next overlap in the door, so their union is one interval containing the segment
       ELSE LET num == u[1] * dy + (w[1] - u[1]) * (yb - u[2]) IN a * dy <= num /\ num <= b * dy
SegInside0(u, w, rs) == \E iu \in RectsOf(u, rs), iw \in RectsOf(w, rs) :
                            iu <= iw /\ \A t \in iu..(iw - 1) : CrossOK(u, w, rs, t)
SegInside(u, w, rs) == IF u[2] <= w[2] THEN SegInside0(u, w, rs) ELSE SegInside0(w, u, rs)

Cross(o, a, b) == (a[1] - o[1]) * (b[2] - o[2]) - (a[2] - o[2]) * (b[1] - o[1])
RECURSIVE Norm(_)          \* drop repeated points and collinear interior points
Norm(p) == IF Len(p) <= 1 THEN p
           ELSE IF p[1] = p[2] THEN Norm(Tail(p))
           ELSE IF Len(p) >= 3 /\ Cross(p[1], p[2], p[3]) = 0
                   /\ ((p[2][1] - p[1][1]) * (p[3][1] - p[2][1]) + (p[2][2] - p[1][2]) * (p[3][2] - p[2][2]) >= 0)
                THEN Norm(<<p[1]>> \o SubSeq(p, 3, Len(p)))
           ELSE <<p[1]>> \o Norm(Tail(p))

LeftReflex(v, rs)  == \E t \in 1..(Len(rs) - 1) : rs[t][1] # rs[t + 1][1] /\ v = <<DoorA(rs, t), DoorY(rs, t)>>
RightReflex(v, rs) == \E t \in 1..(Len(rs) - 1) : rs[t][3] # rs[t + 1][3] /\ v = <<DoorB(rs, t), DoorY(rs, t)>>
TautAt(prev, v, next, rs) == LET c == Cross(prev, next, v) IN
      \/ LeftReflex(v, rs)  /\ c < 0        \* wall on the left: the chord prev -> next passes left of v
      \/ RightReflex(v, rs) /\ c > 0

\* path ordered from s to e
IsGeodesic(path, s, e, rs) == LET p == Norm(path) IN
   /\ Len(p) >= 1 /\ p[1] = s /\ p[Len(p)] = e
   /\ \A i \in 1..(Len(p) - 1) : p[i][2] <= p[i + 1][2] /\ SegInside(p[i], p[i + 1], rs)
   /\ \A i \in 2..(Len(p) - 1) : TautAt(p[i - 1], p[i], p[i + 1], rs)

Reverse(q) == [i \in DOMAIN q |-> q[Len(q) + 1 - i]]
\* geodesics of a y-monotone polygon are y-monotone: judge in the direction in which y does not decrease
IsGeodesicAny(path, p1, p2, rs) == IF p1[2] <= p2[2] THEN IsGeodesic(path, p1, p2, rs)
                                   ELSE IsGeodesic(Reverse(path), p2, p1, rs)

\* ------------------------------------------------------------------ the criterion at small scope
Corners(rs) == {v \in {<<DoorA(rs, t), DoorY(rs, t)>> : t \in 1..(Len(rs) - 1)} \cup
                       {<<DoorB(rs, t), DoorY(rs, t)>> : t \in 1..(Len(rs) - 1)} : LeftReflex(v, rs) \/ RightReflex(v, rs)}
\* candidate paths: s, then a subset of the reflex corners with at most one per door, in door order, then e
RECURSIVE SeqsOver(_, _, _)
SeqsOver(rs, t, acc) ==
    IF t > Len(rs) - 1 THEN {acc}
    ELSE LET here == {v \in Corners(rs) : v[2] = DoorY(rs, t)}
         IN SeqsOver(rs, t + 1, acc) \cup UNION {SeqsOver(rs, t + 1, Append(acc, v)) : v \in here}
Candidates(s, e, rs) == {<<s>> \o mid \o <<e>> : mid \in SeqsOver(rs, 1, <<>>)}
Inside(p, rs) == \A i \in 1..(Len(p) - 1) : SegInside(p[i], p[i + 1], rs)

\* integer square root and interval length (unit 1/1000)
RECURSIVE ISqrtBin(_, _, _)
ISqrtBin(n, lo, hi) == IF lo >= hi THEN lo
                       ELSE LET mid == (lo + hi + 1) \div 2 IN IF mid * mid <= n THEN ISqrtBin(n, mid, hi) ELSE ISqrtBin(n, lo, mid - 1)
ISqrt(n) == ISqrtBin(n, 0, 46340)
RECURSIVE LenLo(_), LenHi(_)
SegSq(a, b) == (a[1] - b[1]) * (a[1] - b[1]) + (a[2] - b[2]) * (a[2] - b[2])
LenLo(p) == IF Len(p) <= 1 THEN 0 ELSE ISqrt(SegSq(p[1], p[2]) * 1000000) + LenLo(Tail(p))
LenHi(p) == IF Len(p) <= 1 THEN 0 ELSE ISqrt(SegSq(p[1], p[2]) * 1000000) + 1 + LenHi(Tail(p))


\* ------------------------------------------------------------------ triangulations (layer-3 invariant of geom.Triangulate)
Area2(t) == LET c == Cross(t[1], t[2], t[3]) IN IF c < 0 THEN -c ELSE c      \* twice the area
RECURSIVE SumArea2(_, _)
SumArea2(ts, i) == IF i > Len(ts) THEN 0 ELSE Area2(ts[i]) + SumArea2(ts, i + 1)
RECURSIVE RectArea2(_, _)
RectArea2(rs, i) == IF i > Len(rs) THEN 0 ELSE 2 * (rs[i][3] - rs[i][1]) * (rs[i][4] - rs[i][2]) + RectArea2(rs, i + 1)
\* every triangle is non-degenerate and inside the corridor, and together they have the corridor's area
\* (inside + equal area => they tile it without overlap)
TriangulationOK(rs, ts) ==
    /\ \A i \in DOMAIN ts : Area2(ts[i]) > 0
    /\ \A i \in DOMAIN ts : /\ SegInside(ts[i][1], ts[i][2], rs) /\ SegInside(ts[i][2], ts[i][3], rs) /\ SegInside(ts[i][3], ts[i][1], rs)
    /\ SumArea2(ts, 1) = RectArea2(rs, 1)
=============================================================================
