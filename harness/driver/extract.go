package main

import (
	"encoding/json"
	"flag"
	"go/ast"
	"go/build"
	"go/importer"
	"go/parser"
	"go/token"
	"go/types"
	"os"
	"path/filepath"
	"sort"
	"strings"
)

// extract: static tables read from the library's non-test sources with the build tag off
// (go/parser + go/types, standard library only):
//   - every package-level variable, with every write to it (assignment, inc/dec, address-of,
//     delete/clear/copy) and the number of reads: the Shared table of spec/conc/Monitor.tla (C15);
//   - every `range` over a map: the sites where Go's randomised iteration order can leak (C07).

type xWrite struct {
	Func string `json:"func"`
	Pos  string `json:"pos"`
	Kind string `json:"kind"`
}

type xVar struct {
	Pkg    string   `json:"pkg"`
	Name   string   `json:"name"`
	Type   string   `json:"type"`
	Pos    string   `json:"pos"`
	Writes []xWrite `json:"writes"`
	Reads  int      `json:"reads"`
}

type xRange struct {
	Pos  string `json:"pos"`
	Func string `json:"func"`
	Expr string `json:"expr"`
}

func cmdExtract(args []string) {
	fs := flag.NewFlagSet("extract", flag.ExitOnError)
	root := fs.String("root", "/repo", "module root")
	out := fs.String("out", "", "output json")
	fs.Parse(args)
	const mod = "github.com/nulab/autog"
	fset := token.NewFileSet()
	imp := importer.ForCompiler(fset, "source", nil)
	ctx := build.Default // no build tags: the verif hooks are excluded
	vars := map[*types.Var]*xVar{}
	var ranges []xRange
	rel := func(p token.Pos) string {
		ps := fset.Position(p)
		r, _ := filepath.Rel(*root, ps.Filename)
		return r + ":" + itoa(ps.Line)
	}
	filepath.Walk(*root, func(path string, info os.FileInfo, err error) error {
		if err != nil || !info.IsDir() {
			return nil
		}
		if strings.Contains(path, "/.git") || strings.HasSuffix(path, "testfiles") || strings.Contains(path, "zzverif") {
			return filepath.SkipDir
		}
		var files []*ast.File
		ents, _ := os.ReadDir(path)
		for _, e := range ents {
			if !strings.HasSuffix(e.Name(), ".go") || strings.HasSuffix(e.Name(), "_test.go") || strings.HasPrefix(e.Name(), "zz_verif_") {
				continue
			}
			if ok, _ := ctx.MatchFile(path, e.Name()); !ok {
				continue
			}
			f, err := parser.ParseFile(fset, filepath.Join(path, e.Name()), nil, 0)
			if err != nil {
				harnessErr("extract: %v", err)
			}
			files = append(files, f)
		}
		if len(files) == 0 {
			return nil
		}
		r, _ := filepath.Rel(*root, path)
		pkgPath := mod
		if r != "." {
			pkgPath = mod + "/" + filepath.ToSlash(r)
		}
		conf := types.Config{Importer: imp, Error: func(error) {}}
		ti := &types.Info{Uses: map[*ast.Ident]types.Object{}, Defs: map[*ast.Ident]types.Object{}, Types: map[ast.Expr]types.TypeAndValue{}}
		pkg, _ := conf.Check(pkgPath, fset, files, ti)
		if pkg == nil {
			return nil
		}
		for _, name := range pkg.Scope().Names() {
			if v, ok := pkg.Scope().Lookup(name).(*types.Var); ok && v.Name() != "_" {
				vars[v] = &xVar{Pkg: strings.TrimPrefix(strings.TrimPrefix(pkgPath, mod), "/"), Name: v.Name(), Type: types.TypeString(v.Type(), func(p *types.Package) string { return p.Name() }), Pos: rel(v.Pos())}
			}
		}
		isPkgVar := func(id *ast.Ident) *types.Var {
			if v, ok := ti.Uses[id].(*types.Var); ok && v.Pkg() != nil && v.Parent() == v.Pkg().Scope() {
				return v
			}
			return nil
		}
		var rootIdent func(e ast.Expr) *ast.Ident
		rootIdent = func(e ast.Expr) *ast.Ident {
			switch t := e.(type) {
			case *ast.Ident:
				return t
			case *ast.SelectorExpr:
				if id, ok := t.X.(*ast.Ident); ok {
					if _, isPkg := ti.Uses[id].(*types.PkgName); isPkg {
						return t.Sel // pkg.Var
					}
				}
				return rootIdent(t.X)
			case *ast.IndexExpr:
				return rootIdent(t.X)
			case *ast.StarExpr:
				return rootIdent(t.X)
			case *ast.ParenExpr:
				return rootIdent(t.X)
			case *ast.SliceExpr:
				return rootIdent(t.X)
			}
			return nil
		}
		for _, f := range files {
			for _, d := range f.Decls {
				fd, ok := d.(*ast.FuncDecl)
				if !ok || fd.Body == nil {
					continue
				}
				fname := fd.Name.Name
				if fd.Recv != nil && len(fd.Recv.List) > 0 {
					fname = types.ExprString(fd.Recv.List[0].Type) + "." + fname
				}
				written := map[*ast.Ident]bool{}
				mark := func(e ast.Expr, kind string) {
					if id := rootIdent(e); id != nil {
						if v := isPkgVar(id); v != nil {
							if xv, ok := vars[v]; ok {
								xv.Writes = append(xv.Writes, xWrite{Func: fname, Pos: rel(id.Pos()), Kind: kind})
								written[id] = true
							} else {
								// a variable of a package not scanned yet / outside the module
								nv := &xVar{Pkg: v.Pkg().Path(), Name: v.Name(), Type: v.Type().String(), Pos: "?"}
								nv.Writes = append(nv.Writes, xWrite{Func: fname, Pos: rel(id.Pos()), Kind: kind})
								vars[v] = nv
								written[id] = true
							}
						}
					}
				}
				ast.Inspect(fd.Body, func(n ast.Node) bool {
					switch t := n.(type) {
					case *ast.AssignStmt:
						if t.Tok != token.DEFINE {
							for _, l := range t.Lhs {
								mark(l, "assign")
							}
						}
					case *ast.IncDecStmt:
						mark(t.X, "incdec")
					case *ast.UnaryExpr:
						if t.Op == token.AND {
							mark(t.X, "addr")
						}
					case *ast.RangeStmt:
						if t.Tok == token.ASSIGN {
							if t.Key != nil {
								mark(t.Key, "assign")
							}
							if t.Value != nil {
								mark(t.Value, "assign")
							}
						}
						if tv, ok := ti.Types[t.X]; ok {
							if _, isMap := tv.Type.Underlying().(*types.Map); isMap {
								ranges = append(ranges, xRange{Pos: rel(t.Pos()), Func: strings.TrimPrefix(strings.TrimPrefix(pkgPath, mod), "/") + "." + fname, Expr: types.ExprString(t.X)})
							}
						}
					case *ast.CallExpr:
						// a method called on a package-level variable may mutate it (e.g. a rand.Source, a cache type)
						if sel, ok := t.Fun.(*ast.SelectorExpr); ok {
							if _, isMethod := ti.Uses[sel.Sel].(*types.Func); isMethod {
								if id := rootIdent(sel.X); id != nil && id != sel.Sel {
									if v := isPkgVar(id); v != nil {
										if _, isIface := v.Type().Underlying().(*types.Interface); isIface || !isValueOnly(v.Type()) {
											mark(sel.X, "methodcall")
										}
									}
								}
							}
						}
						if id, ok := t.Fun.(*ast.Ident); ok && len(t.Args) > 0 {
							if _, isB := ti.Uses[id].(*types.Builtin); isB && (id.Name == "delete" || id.Name == "clear" || id.Name == "copy") {
								mark(t.Args[0], "builtin")
							}
						}
					}
					return true
				})
				ast.Inspect(fd.Body, func(n ast.Node) bool {
					if id, ok := n.(*ast.Ident); ok && !written[id] {
						if v := isPkgVar(id); v != nil {
							if xv, ok := vars[v]; ok {
								xv.Reads++
							}
						}
					}
					return true
				})
			}
		}
		return nil
	})
	var vs []*xVar
	for _, v := range vars {
		vs = append(vs, v)
	}
	sort.Slice(vs, func(i, j int) bool { return vs[i].Pkg+"."+vs[i].Name < vs[j].Pkg+"."+vs[j].Name })
	sort.Slice(ranges, func(i, j int) bool { return ranges[i].Pos < ranges[j].Pos })
	data, _ := json.MarshalIndent(map[string]any{"vars": vs, "mapranges": ranges}, "", " ")
	if *out == "" {
		os.Stdout.Write(data)
		return
	}
	if err := os.WriteFile(*out, data, 0o644); err != nil {
		harnessErr("extract: %v", err)
	}
}

// isValueOnly reports whether methods called on a value of this type cannot mutate it through the variable
// (basic types, and structs/arrays of such without pointer-receiver methods are not distinguished: be conservative)
func isValueOnly(t types.Type) bool {
	switch t.Underlying().(type) {
	case *types.Basic:
		return true
	}
	return false
}

func itoa(i int) string {
	b := []byte{}
	if i == 0 {
		return "0"
	}
	for i > 0 {
		b = append([]byte{byte('0' + i%10)}, b...)
		i /= 10
	}
	return string(b)
}
