package main

import (
	"math"
	"github.com/nulab/autog"
	ig "github.com/nulab/autog/internal/graph"
)

// Stage snapshots (hook H1): the working graph of each connected component after pre-processing (stage 0),
// after each of the five phases (1-5) and after post-processing (6), for the layer-2 trace specification
// PipelineTrace.tla. Node references: i > 0 is the input node index, i < 0 the k-th helper node of the component.
type stageSnap struct {
	comp, stage int
	nodes       [][8]int // ref, virtual, layer, pos, x, y, w, h  (coordinates in 1/64, unscaled)
	edges       [][5]int // from ref, to ref, reversed, points, arrowHeadStart
	layers      [][]int  // refs in slice order
	inl, outl   [][]int  // per node (in nodes order): positions in edges (1-based) of n.In / n.Out, in list order
	pts         [][]int  // per edge: x1, y1, x2, y2, ... (1/64), from stage 5 on
	layerH      []int
	exact       bool
	// stage 5 with spline routing and a monitor: the corridor of every routed edge of the component, in routing order, in
	// SIXTHS of a unit (the rectangles beside helper nodes are narrowed by thirds): rectangles l, t, r, b; start x, y; end x, y
	cors   [][]int
	corsOK bool // every coordinate is an exact multiple of 1/6
}

var (
	stageOn    bool
	stageSnaps []stageSnap
	stageComp  int
	stageIndex map[string]int
	stageScale int
)

func installStageHook() {
	autog.VerifStage = func(stage int, g *ig.DGraph) {
		if !stageOn {
			return
		}
		if stage == 0 {
			stageComp++
		}
		var e enc
		e.exact, e.finite = true, true
		qq := func(v float64) int {
			e.b = e.b[:0]
			e.q(ldexp(v, -stageScale))
			n := 0
			neg := false
			for _, ch := range e.b {
				if ch == '-' {
					neg = true
				} else {
					n = n*10 + int(ch-'0')
				}
			}
			if neg {
				n = -n
			}
			return n
		}
		refs := map[*ig.Node]int{}
		nv := 0
		s := stageSnap{comp: stageComp, stage: stage}
		for _, n := range g.Nodes {
			ref := 0
			if n.IsVirtual {
				nv++
				ref = -nv
			} else {
				ref = stageIndex[n.ID]
			}
			refs[n] = ref
			v := 0
			if n.IsVirtual {
				v = 1
			}
			s.nodes = append(s.nodes, [8]int{ref, v, n.Layer, n.LayerPos, qq(n.X), qq(n.Y), qq(n.W), qq(n.H)})
		}
		for _, ed := range g.Edges {
			r, a := 0, 0
			if ed.IsReversed {
				r = 1
			}
			if ed.ArrowHeadStart {
				a = 1
			}
			s.edges = append(s.edges, [5]int{refs[ed.From], refs[ed.To], r, len(ed.Points), a})
			if stage >= 5 {
				row := []int{}
				for _, p := range ed.Points {
					row = append(row, qq(p[0]), qq(p[1]))
				}
				s.pts = append(s.pts, row)
			}
		}
		epos := map[*ig.Edge]int{}
		for k, ed := range g.Edges {
			epos[ed] = k + 1
		}
		for _, n := range g.Nodes {
			in := []int{}
			for _, ed := range n.In {
				in = append(in, epos[ed]) // 0: an edge that is not in g.Edges (a stripped self-loop)
			}
			out := []int{}
			for _, ed := range n.Out {
				out = append(out, epos[ed])
			}
			s.inl = append(s.inl, in)
			s.outl = append(s.outl, out)
		}
		for _, l := range g.Layers {
			var row []int
			for _, n := range l.Nodes {
				row = append(row, refs[n])
			}
			s.layers = append(s.layers, row)
			s.layerH = append(s.layerH, qq(l.H))
		}
		s.exact = e.exact && e.finite
		if stage == 5 && curRec != nil && len(curRec.cors) > 0 {
			s.corsOK = true
			six := func(v float64) int {
				w := ldexp(v, -stageScale) * 6
				r := math.Round(w)
				if r != w || math.IsInf(w, 0) || math.IsNaN(w) || math.Abs(w) > 1e9 {
					s.corsOK = false
					return 0
				}
				return int(r)
			}
			for _, c := range curRec.cors {
				row := []int{len(c.rects)}
				for _, r := range c.rects {
					row = append(row, six(r[0]), six(r[1]), six(r[2]), six(r[3]))
				}
				row = append(row, six(c.s[0]), six(c.s[1]), six(c.e[0]), six(c.e[1]))
				s.cors = append(s.cors, row)
			}
			curRec.cors = curRec.cors[:0]
		}
		stageSnaps = append(stageSnaps, s)
	}
}

func (e *enc) stages(c *Case) {
	for _, s := range stageSnaps {
		e.s(`{"ev":"Stage","case":`)
		e.i(c.Case)
		e.s(`,"g":`)
		e.i(c.G)
		e.s(`,"comp":`)
		e.i(s.comp)
		e.s(`,"st":`)
		e.i(s.stage)
		e.s(`,"nodes":[`)
		for k, n := range s.nodes {
			if k > 0 {
				e.s(",")
			}
			e.ints(n[:])
		}
		e.s(`],"edges":[`)
		for k, ed := range s.edges {
			if k > 0 {
				e.s(",")
			}
			e.ints(ed[:])
		}
		e.s(`],"layers":[`)
		for k, l := range s.layers {
			if k > 0 {
				e.s(",")
			}
			e.ints(l)
		}
		e.s(`],"inl":[`)
		for k, l := range s.inl {
			if k > 0 {
				e.s(",")
			}
			e.ints(l)
		}
		e.s(`],"outl":[`)
		for k, l := range s.outl {
			if k > 0 {
				e.s(",")
			}
			e.ints(l)
		}
		e.s(`],"pts":[`)
		for k, l := range s.pts {
			if k > 0 {
				e.s(",")
			}
			e.ints(l)
		}
		e.s(`],"cors":[`)
		for k, l := range s.cors {
			if k > 0 {
				e.s(",")
			}
			e.ints(l)
		}
		e.s(`],"corsok":`)
		if s.corsOK {
			e.s("1")
		} else {
			e.s("0")
		}
		e.s(`,"lh":`)
		e.ints(s.layerH)
		e.s(`,"exact":`)
		if s.exact {
			e.s("1")
		} else {
			e.s("0")
		}
		e.s("}\n")
	}
}
