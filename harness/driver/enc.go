package main

import (
	"math"
	"strconv"

	"github.com/nulab/autog/graph"
)

// enc builds one integer-only JSON line. TLC's JSON reader truncates
// non-integers and wraps integers above 2^31, so every number written here is
// an integer with |v| < 2^30.
type enc struct {
	b        []byte
	rangeErr string
	exact    bool
	finite   bool
	ns       []nsReport
}

const qScale = 64 // coordinates are logged in units of 1/64

func (e *enc) s(x string)   { e.b = append(e.b, x...) }
func (e *enc) i(x int)      { e.b = strconv.AppendInt(e.b, int64(x), 10) }
func (e *enc) str(x string) { e.b = strconv.AppendQuote(e.b, x) }

func (e *enc) q(v float64) {
	if math.IsNaN(v) || math.IsInf(v, 0) {
		e.finite = false
		e.i(0)
		return
	}
	s := v * qScale
	r := math.Round(s)
	if r != s {
		e.exact = false
	}
	if math.Abs(r) >= 1<<30 {
		if e.rangeErr == "" {
			e.rangeErr = "coordinate out of the integer range of the trace format: " + strconv.FormatFloat(v, 'g', -1, 64)
		}
		r = 0
	}
	e.i(int(r))
}

// ex writes the exact decomposition [sign, mhi, mlo, exp] with
// v = sign * (mhi*2^27 + mlo) * 2^exp and an odd mantissa; 0 is [0,0,0,0];
// NaN/Inf is [2,0,0,0].
func (e *enc) ex(v float64) {
	if math.IsNaN(v) || math.IsInf(v, 0) {
		e.s("[2,0,0,0]")
		return
	}
	if v == 0 {
		e.s("[0,0,0,0]")
		return
	}
	sign := 1
	if v < 0 {
		sign = -1
		v = -v
	}
	fr, exp := math.Frexp(v) // v = fr * 2^exp, fr in [0.5,1)
	m := uint64(math.Ldexp(fr, 53))
	exp -= 53
	for m&1 == 0 {
		m >>= 1
		exp++
	}
	e.s("[")
	e.i(sign)
	e.s(",")
	e.i(int(m >> 27))
	e.s(",")
	e.i(int(m & (1<<27 - 1)))
	e.s(",")
	e.i(exp)
	e.s("]")
}

func (e *enc) ints(xs []int) {
	e.s("[")
	for k, x := range xs {
		if k > 0 {
			e.s(",")
		}
		e.i(x)
	}
	e.s("]")
}

func (e *enc) head(ev string, c *Case) {
	e.s(`{"ev":"`)
	e.s(ev)
	e.s(`","case":`)
	e.i(c.Case)
	e.s(`,"g":`)
	e.i(c.G)
}

func (e *enc) call(c *Case) {
	e.head("Call", c)
	e.s(`,"rel":`)
	e.str(c.Rel)
	e.s(`,"part":`)
	e.ints(c.Part)
	e.s(`,"n":`)
	e.i(c.N)
	e.s(`,"edges":[`)
	for k, ed := range c.Edges {
		if k > 0 {
			e.s(",")
		}
		e.s("[")
		e.i(ed[0])
		e.s(",")
		e.i(ed[1])
		e.s("]")
	}
	e.s(`],"p1":`)
	e.str(c.P1)
	e.s(`,"p2":`)
	e.str(c.P2)
	e.s(`,"p3":`)
	e.str(c.P3)
	e.s(`,"p4":`)
	e.str(c.P4)
	e.s(`,"p5":`)
	e.str(c.P5)
	e.s(`,"ns":`)
	e.i(c.Ns)
	e.s(`,"nsd":`)
	if c.Nsd > 1 {
		e.i(c.Nsd)
	} else {
		e.i(1)
	}
	e.s(`,"sden":`)
	if c.Sden > 1 {
		e.i(c.Sden)
	} else {
		e.i(1)
	}
	e.s(`,"ls":`)
	e.i(c.Ls)
	e.s(`,"fixed":`)
	e.ints(c.Fixed)
	e.s(`,"smap":[`)
	for k, sm := range c.Smap {
		if k > 0 {
			e.s(",")
		}
		e.ints(sm)
	}
	e.s(`],"virt":`)
	e.i(c.Virt)
	e.s(`,"thor":`)
	e.i(c.Thor)
	e.s(`,"mon":`)
	e.i(c.Mon)
	e.s(`,"sc":`)
	e.i(c.Sc)
	e.s(`,"bad":`)
	e.i(c.Bad)
	e.s(`,"dup":`)
	e.i(c.Dup)
	e.s(`,"names":`)
	if len(c.Names) > 0 {
		e.s("1")
	} else {
		e.s("0")
	}
	e.s("}\n")
}

func (e *enc) panicRec(c *Case, msg, where string) {
	e.head("Panic", c)
	e.s(`,"msg":`)
	if len(msg) > 200 {
		msg = msg[:200]
	}
	e.str(msg)
	e.s(`,"where":`)
	e.str(where)
	e.s("}\n")
}

func (e *enc) ret(c *Case, res *outcome, rec *recorder, src graph.EdgeSlice, sizes map[string]graph.Size) {
	e.exact, e.finite = true, true
	index := make(map[string]int, c.N)
	for i := 1; i <= c.N; i++ {
		index[c.name(i)] = i
	}
	// coordinates are logged relative to the case's scale, so that the integer
	// grid of the trace format is independent of the unit chosen by the case
	un := func(v float64) float64 { return math.Ldexp(v, -c.Sc) }
	e.head("Return", c)
	e.s(`,"nodes":[`)
	for k, n := range res.layout.Nodes {
		if k > 0 {
			e.s(",")
		}
		i, ok := index[n.ID]
		v := 0
		if !ok {
			v = 1
		}
		e.s(`{"i":`)
		e.i(i)
		e.s(`,"v":`)
		e.i(v)
		// the identifier a helper node carries in the output is part of the result (C07: same arguments, same result): the
		// number k of "V<k>", or -1 for anything else
		e.s(`,"vid":`)
		vid := 0
		if v == 1 {
			vid = -1
			if len(n.ID) > 1 && n.ID[0] == 'V' {
				if k, err := strconv.Atoi(n.ID[1:]); err == nil {
					vid = k
				}
			}
		}
		e.i(vid)
		e.s(`,"x":`)
		e.q(un(n.X))
		e.s(`,"y":`)
		e.q(un(n.Y))
		e.s(`,"w":`)
		e.q(un(n.W))
		e.s(`,"h":`)
		e.q(un(n.H))
		if c.Sden > 1 {
			// sizes off the binary grid: the exact float64 of the returned width and height (compared with cfx / cmx below)
			e.s(`,"sx":[`)
			e.ex(un(n.W))
			e.s(",")
			e.ex(un(n.H))
			e.s("]")
		}
		if c.Ex == 1 {
			e.s(`,"ex":[`)
			e.ex(un(n.X))
			e.s(",")
			e.ex(un(n.Y))
			e.s(",")
			e.ex(un(n.W))
			e.s(",")
			e.ex(un(n.H))
			e.s("]")
		}
		e.s("}")
	}
	e.s(`],"oe":[`)
	for k, ed := range res.layout.Edges {
		if k > 0 {
			e.s(",")
		}
		e.s(`{"f":`)
		e.i(index[ed.FromID])
		e.s(`,"t":`)
		e.i(index[ed.ToID])
		e.s(`,"ahs":`)
		if ed.ArrowHeadStart {
			e.s("1")
		} else {
			e.s("0")
		}
		e.s(`,"pts":[`)
		for j, p := range ed.Points {
			if j > 0 {
				e.s(",")
			}
			e.s("[")
			e.q(un(p[0]))
			e.s(",")
			e.q(un(p[1]))
			e.s("]")
		}
		e.s("]")
		if c.Ex == 1 {
			e.s(`,"pex":[`)
			for j, p := range ed.Points {
				if j > 0 {
					e.s(",")
				}
				e.s("[")
				e.ex(un(p[0]))
				e.s(",")
				e.ex(un(p[1]))
				e.s("]")
			}
			e.s("]")
		}
		e.s("}")
	}
	e.s(`],"cross":[`)
	first := true
	for _, ev := range rec.events {
		if ev.key == "crossings" && ev.isInt {
			if !first {
				e.s(",")
			}
			first = false
			e.i(ev.ival)
		}
	}
	e.s(`],"nev":`)
	e.i(len(rec.events))
	e.s(`,"exact":`)
	if e.exact {
		e.s("1")
	} else {
		e.s("0")
	}
	e.s(`,"fin":`)
	if e.finite {
		e.s("1")
	} else {
		e.s("0")
	}
	if c.Sden > 1 {
		// the exact float64 values that were handed to WithNodeFixedSize / WithNodeSize
		e.s(`,"cfx":[`)
		if len(c.Fixed) == 2 {
			e.ex(un(c.size(c.Fixed[0])))
			e.s(",")
			e.ex(un(c.size(c.Fixed[1])))
		}
		e.s(`],"cmx":[`)
		for k, sm := range c.Smap {
			if k > 0 {
				e.s(",")
			}
			e.s("[")
			if len(sm) >= 3 {
				e.ex(un(c.size(sm[1])))
				e.s(",")
				e.ex(un(c.size(sm[2])))
			}
			e.s("]")
		}
		e.s("]")
	}
	if c.After == 1 {
		// the caller's data re-read after the call
		e.s(`,"after":{"edges":[`)
		for k, ed := range src {
			if k > 0 {
				e.s(",")
			}
			e.s("[")
			for j, id := range ed {
				if j > 0 {
					e.s(",")
				}
				e.i(index[id])
			}
			e.s("]")
		}
		e.s(`],"smap":[`)
		if sizes != nil {
			for i := 1; i <= c.N; i++ {
				if i > 1 {
					e.s(",")
				}
				sz, ok := sizes[c.name(i)]
				if !ok {
					e.s("[0,0,0]")
					continue
				}
				e.s("[1,")
				e.q(un(sz.W))
				e.s(",")
				e.q(un(sz.H))
				e.s(",")
				e.q(un(sz.X))
				e.s(",")
				e.q(un(sz.Y))
				e.s("]")
			}
		}
		e.s(`],"nsmap":`)
		e.i(len(sizes))
		if decoy, ok := decoyMaps[c.Case]; ok {
			// the decoy map of the first WithNodeSize option, re-read as well
			e.s(`,"smap0":[`)
			for i := 1; i <= c.N; i++ {
				if i > 1 {
					e.s(",")
				}
				sz, ok := decoy[c.name(i)]
				if !ok {
					e.s("[0,0,0]")
					continue
				}
				e.s("[1,")
				e.q(un(sz.W))
				e.s(",")
				e.q(un(sz.H))
				e.s("]")
			}
			e.s(`],"nsmap0":`)
			e.i(len(decoy))
			delete(decoyMaps, c.Case)
		}
		e.s("}")
	}
	if c.Cert == 1 {
		ok := true
		for _, ed := range res.layout.Edges {
			if index[ed.FromID] == 0 || index[ed.ToID] == 0 {
				ok = false
			}
		}
		if ok {
			if y, f, good := certificate(c.N, drawnArcs(res.layout.Edges, index)); good {
				e.s(`,"cert":{"y":`)
				e.ints(y)
				e.s(`,"f":`)
				e.ints(f)
				e.s("}")
			}
		}
	}
	// network-simplex layering: total pivots, and whether any component ended on the iteration budget
	piv, capped, stuck := 0, 0, 0
	for _, r := range e.ns {
		piv += r.pivots
		if r.capped {
			capped = 1
		}
		if r.stuck {
			stuck = 1
		}
	}
	e.s(`,"pivots":`)
	e.i(piv)
	e.s(`,"capped":`)
	e.i(capped)
	e.s(`,"stuck":`)
	e.i(stuck)
	e.s(`,"us":`)
	us := res.wallUs
	if us > 1<<29 {
		us = 1 << 29
	}
	e.i(int(us))
	e.s("}\n")
}

func ldexp(v float64, k int) float64 { return math.Ldexp(v, k) }
