package main

import "github.com/nulab/autog/graph"

// Optimality certificate for the layering property C10, computed by a solver that
// shares nothing with the library (cycle cancelling with Bellman-Ford) and is NOT trusted:
// the TLA+ predicate CertOK re-checks primal feasibility, dual feasibility, flow balance
// and strong duality; a bad certificate is a harness error, never a verdict.
//
// Primal:  min  sum over arcs (y[head]-y[tail])   s.t.  y[head]-y[tail] >= 1
// Dual:    max  sum f   s.t.  f >= 0,  inflow(v)-outflow(v) = indeg(v)-outdeg(v)
//
// arcs are the routed output edges in output order, oriented as drawn.
func certificate(n int, arcs [][2]int) (y []int, f []int, ok bool) {
	m := len(arcs)
	f = make([]int, m)
	for i := range f {
		f[i] = 1 // f = 1 is dual feasible
	}
	type rarc struct{ from, to, cost, arc, dir int }
	const inf = 1 << 28
	for iter := 0; iter < 100000; iter++ {
		var res []rarc
		for i, a := range arcs {
			res = append(res, rarc{a[0], a[1], -1, i, +1}) // push one more unit along the arc
			if f[i] > 0 {
				res = append(res, rarc{a[1], a[0], +1, i, -1}) // take one unit back
			}
		}
		d := make([]int, n+1)
		pred := make([]int, n+1)
		for i := range pred {
			pred[i] = -1
		}
		x := -1
		for round := 0; round <= n; round++ {
			x = -1
			for k, r := range res {
				if d[r.from]+r.cost < d[r.to] {
					d[r.to] = d[r.from] + r.cost
					pred[r.to] = k
					x = r.to
				}
			}
			if x < 0 {
				break
			}
		}
		if x < 0 {
			// no negative cycle: y = -d is an optimal primal solution
			lo := inf
			for v := 1; v <= n; v++ {
				if -d[v] < lo {
					lo = -d[v]
				}
			}
			y = make([]int, n)
			for v := 1; v <= n; v++ {
				y[v-1] = -d[v] - lo
			}
			return y, f, true
		}
		// walk back n steps to land inside the cycle, then collect it
		for i := 0; i < n; i++ {
			x = res[pred[x]].from
		}
		var cyc []rarc
		onlyForward := true
		for v := x; ; {
			r := res[pred[v]]
			cyc = append(cyc, r)
			if r.dir < 0 {
				onlyForward = false
			}
			v = r.from
			if v == x {
				break
			}
		}
		if onlyForward {
			return nil, nil, false // a directed cycle among the arcs: the primal is infeasible
		}
		// bottleneck: backward residual arcs have capacity f
		b := inf
		for _, r := range cyc {
			if r.dir < 0 && f[r.arc] < b {
				b = f[r.arc]
			}
		}
		for _, r := range cyc {
			f[r.arc] += r.dir * b
		}
	}
	return nil, nil, false
}

// drawnArcs returns the routed output edges, oriented as drawn, as index pairs.
func drawnArcs(edges []graph.Edge, index map[string]int) [][2]int {
	var arcs [][2]int
	for _, e := range edges {
		u, v := index[e.FromID], index[e.ToID]
		if u == v {
			continue
		}
		if e.ArrowHeadStart {
			u, v = v, u
		}
		arcs = append(arcs, [2]int{u, v})
	}
	return arcs
}
