package main

// solveResult is completed with the C20 check.
func solveResult(e *enc, c *GeomCase, roots []float64, rootsNil bool) {}
