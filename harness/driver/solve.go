package main

import (
	"math"
	"math/big"
)

// solveResult measures the solver's answer against the real roots the case was built from, with exact
// rational arithmetic: for every expected root the distance to the nearest returned value ("miss"), for
// every returned value the distance to the nearest expected root ("extra"), both in units of
// 1e-7 * max(1, |expected root|), floored and capped at 1e6. The TLA+ predicate RootsOK judges them.
func solveResult(e *enc, c *GeomCase, roots []float64, rootsNil bool) {
	const cap = 1000000
	unit := func(r *big.Rat) *big.Rat { // 1e-7 * max(1, |r|)
		a := new(big.Rat).Abs(r)
		if a.Cmp(big.NewRat(1, 1)) < 0 {
			a = big.NewRat(1, 1)
		}
		return a.Mul(a, big.NewRat(1, 10000000))
	}
	dist := func(x float64, r *big.Rat) int {
		if math.IsNaN(x) || math.IsInf(x, 0) {
			return cap
		}
		xr := new(big.Rat).SetFloat64(x)
		d := new(big.Rat).Sub(xr, r)
		d.Abs(d)
		d.Quo(d, unit(r))
		if d.Cmp(big.NewRat(cap, 1)) >= 0 {
			return cap
		}
		f, _ := d.Float64()
		return int(math.Floor(f))
	}
	exp := make([]*big.Rat, len(c.Roots))
	for i, r := range c.Roots {
		exp[i] = big.NewRat(int64(r[0]), int64(r[1]))
	}
	e.s(`,"miss":[`)
	for i, r := range exp {
		if i > 0 {
			e.s(",")
		}
		best := cap
		for _, x := range roots {
			if d := dist(x, r); d < best {
				best = d
			}
		}
		e.i(best)
	}
	e.s(`],"extra":[`)
	mults := make([]int, len(roots))
	for j, x := range roots {
		if j > 0 {
			e.s(",")
		}
		best := cap
		mults[j] = 1
		for i, r := range exp {
			if d := dist(x, r); d < best {
				best = d
				if len(c.Roots[i]) > 2 {
					mults[j] = c.Roots[i][2]
				}
			}
		}
		e.i(best)
	}
	e.s(`],"extram":`)
	e.ints(mults)
	e.s(`,"nret":`)
	e.i(len(roots))
	e.s(`,"nil":`)
	if rootsNil {
		e.s("1")
	} else {
		e.s("0")
	}
}
