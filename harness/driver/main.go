// Conformance driver for the TLA+ verification framework in /verif.
//
// It is injected into the module with `go build -overlay` as the virtual
// package github.com/nulab/autog/internal/zzverif/driver, so nothing is written
// to /repo. It executes cases (JSON lines) against the real library and writes
// integer-only ndjson traces that the TLA+ trace specifications consume.
//
// Sub-commands:
//
//	run     -cases F -out T [-skip K] [-budgetms B] [-memmb M]   Layout cases
//	geom    -cases F -out T [-skip K] ...                        geom.Shortest / FitSpline / solve3 cases
//	script  -cases F -out T                                      monitor call-history scripts (C18)
//	conc    -cases F -out T -g G -procs P                        concurrent Layout calls (C15)
//	extract -root DIR -out T                                     static tables (package-level state, map ranges)
package main

import (
	"bufio"
	"flag"
	"fmt"
	"os"
	"runtime"
	"runtime/debug"
	"sync/atomic"
	"time"
)

// exit codes understood by the python orchestration
const (
	exitOK       = 0
	exitUsage    = 64
	exitHarness  = 65 // harness-side error (bad case, range error): never a verdict
	exitTimeout  = 97 // watchdog: case exceeded its wall-clock budget
	exitMemory   = 98 // watchdog: heap exceeded its budget
	exitInternal = 99
)

var (
	curCase   atomic.Int64 // id of the case in flight (-1 when idle)
	caseStart atomic.Int64 // unix nanos at which the case in flight started
	budgetNs  atomic.Int64
	memLimit  atomic.Int64
	peakHeap  atomic.Int64

	defaultBudgetNs int64
	budgetScale     int64 = 1
)

func watchdog() {
	var ms runtime.MemStats
	tick := 0
	for {
		time.Sleep(5 * time.Millisecond)
		tick++
		id := curCase.Load()
		if id < 0 {
			continue
		}
		if b := budgetNs.Load(); b > 0 && time.Now().UnixNano()-caseStart.Load() > b {
			fmt.Fprintf(os.Stderr, "\nVERIF-ABORT kind=timeout case=%d\n", id)
			dumpStacks()
			os.Exit(exitTimeout)
		}
		if tick%4 == 0 {
			runtime.ReadMemStats(&ms)
			h := int64(ms.HeapAlloc)
			if h > peakHeap.Load() {
				peakHeap.Store(h)
			}
			if m := memLimit.Load(); m > 0 && h > m {
				fmt.Fprintf(os.Stderr, "\nVERIF-ABORT kind=memory case=%d heap=%d\n", id, h)
				dumpStacks()
				os.Exit(exitMemory)
			}
		}
	}
}

func dumpStacks() {
	buf := make([]byte, 1<<16)
	n := runtime.Stack(buf, true)
	os.Stderr.Write(buf[:n])
}

func usage() {
	fmt.Fprintln(os.Stderr, "usage: driver run|geom|script|conc|extract [flags]")
	os.Exit(exitUsage)
}

type common struct {
	cases    string
	out      string
	skip     int
	budgetMs int
	memMb    int
	scale    int
}

func (c *common) register(fs *flag.FlagSet) {
	fs.StringVar(&c.cases, "cases", "", "ndjson case file")
	fs.StringVar(&c.out, "out", "", "ndjson trace file (appended)")
	fs.IntVar(&c.skip, "skip", 0, "number of leading cases to skip")
	fs.IntVar(&c.budgetMs, "budgetms", 10000, "wall-clock budget per case")
	fs.IntVar(&c.memMb, "memmb", 1024, "heap budget")
	fs.IntVar(&c.scale, "budgetscale", 1, "multiplier applied to every wall-clock budget (re-run of a single overrunning case)")
}

func (c *common) open() (*bufio.Scanner, *bufio.Writer, func()) {
	in, err := os.Open(c.cases)
	if err != nil {
		fmt.Fprintln(os.Stderr, "driver:", err)
		os.Exit(exitHarness)
	}
	out, err := os.OpenFile(c.out, os.O_CREATE|os.O_WRONLY|os.O_APPEND, 0o644)
	if err != nil {
		fmt.Fprintln(os.Stderr, "driver:", err)
		os.Exit(exitHarness)
	}
	sc := bufio.NewScanner(in)
	sc.Buffer(make([]byte, 1<<20), 1<<26)
	w := bufio.NewWriterSize(out, 1<<20)
	budgetScale = int64(max(1, c.scale))
	defaultBudgetNs = int64(c.budgetMs) * int64(time.Millisecond) * budgetScale
	budgetNs.Store(defaultBudgetNs)
	memLimit.Store(int64(c.memMb) << 20)
	curCase.Store(-1)
	go watchdog()
	return sc, w, func() { w.Flush(); out.Close(); in.Close() }
}

func main() {
	if len(os.Args) < 2 {
		usage()
	}
	// runaway recursion must abort quickly instead of filling the default 1 GB stack
	debug.SetMaxStack(64 << 20)
	switch os.Args[1] {
	case "run":
		cmdRun(os.Args[2:])
	case "geom":
		cmdGeom(os.Args[2:])
	case "script":
		cmdScript(os.Args[2:])
	case "conc":
		cmdConc(os.Args[2:])
	case "extract":
		cmdExtract(os.Args[2:])
	default:
		usage()
	}
}

func harnessErr(format string, a ...any) {
	fmt.Fprintf(os.Stderr, "VERIF-HARNESS-ERROR "+format+"\n", a...)
	os.Exit(exitHarness)
}
