package main

func cmdGeom(args []string)    { harnessErr("geom: not built yet") }
func cmdScript(args []string)  { harnessErr("script: not built yet") }
func cmdConc(args []string)    { harnessErr("conc: not built yet") }
func cmdExtract(args []string) { harnessErr("extract: not built yet") }
