package main

func cmdScript(args []string)  { harnessErr("script: not built yet") }
func cmdConc(args []string)    { harnessErr("conc: not built yet") }
func cmdExtract(args []string) { harnessErr("extract: not built yet") }
