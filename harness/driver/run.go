package main

import (
	"slices"
	"github.com/nulab/autog/internal/geom"
	"strings"
	"encoding/json"
	"flag"
	"fmt"
	"math"
	"os"
	"runtime"
	"strconv"
	"time"

	"github.com/nulab/autog"
	"github.com/nulab/autog/graph"
)

// Case is one Layout invocation. All numbers are small integers; real sizes
// and spacings are value * 2^Sc.
type Case struct {
	Case     int      `json:"case"`
	G        int      `json:"g"`   // relational group (0 = none)
	Rel      string   `json:"rel"` // "", "ref", "same", "rename", "scale", "part", "union", "mon"
	Part     []int    `json:"part,omitempty"`
	N        int      `json:"n"`
	Edges    [][2]int `json:"edges"`
	Names    []string `json:"names,omitempty"`
	P1       string   `json:"p1"`
	P2       string   `json:"p2"`
	P3       string   `json:"p3"`
	P4       string   `json:"p4"`
	P5       string   `json:"p5"`
	Ns       int      `json:"ns"`
	Ls       int      `json:"ls"`
	Fixed    []int    `json:"fixed"` // [] or [w,h]
	Smap     [][]int  `json:"smap"`  // [] or per node [present,w,h] (optionally ,x,y)
	Virt     int      `json:"virt"`
	Nsd      int      `json:"nsd"` // NodeSpacing = ns / nsd (nsd a power of two <= 64; 0 or 1: ns itself)
	Sden     int      `json:"sden"` // node sizes (fixed, smap) are divided by sden (> 1: sizes off the binary grid, e.g. 0.1, 12.7); 0 or 1: as given
	Dup      int      `json:"dup"`  // 1: every value option is given twice, first with a decoy value (another size map, other spacings): the later one counts
	Oo       int      `json:"oo"`  // 1: the option list is passed in reverse order
	Bkl      int      `json:"bkl"` // 1..4: WithBrandesKoepfLayout(bkl-1) although the positioner is not Brandes-Koepf
	Thor     int      `json:"thor"` // <0: library default
	Seed     int      `json:"seed"`
	Mon      int      `json:"mon"`
	Sc       int      `json:"sc"`
	Ex       int      `json:"ex"`    // log exact float decompositions
	After    int      `json:"after"` // re-read the caller's data after the call
	Cert     int      `json:"cert"`  // attach an optimality certificate for the layering (C10)
	Bad      int      `json:"bad"`
	Reps     int      `json:"reps"`     // extra in-process repetitions; only those that differ from the first run (and the last one) are logged
	Stages   int      `json:"stages"`   // emit one Stage record per component and pipeline stage (hook H1)
	BudgetMs int      `json:"budgetms"` // wall-clock budget of this case (0: the driver's default)   // 1: malformed edge (3 strings) appended, 2: empty edge list (C18 panics)
}

// decoy maps handed to the FIRST of two WithNodeSize options (dup = 1), by case id: re-read after the call
var decoyMaps = map[int]map[string]graph.Size{}

func (c *Case) name(i int) string {
	if i >= 1 && i <= len(c.Names) {
		return c.Names[i-1]
	}
	return "N" + strconv.Itoa(i)
}

func scale(v int, k int) float64 { return math.Ldexp(float64(v), k) }

// size is a configured node dimension: the integer of the case, scaled, divided by the case's size denominator
func (c *Case) size(v int) float64 {
	x := scale(v, c.Sc)
	if c.Sden > 1 {
		x /= float64(c.Sden)
	}
	return x
}

type monEvent struct {
	phase int
	alg   string
	key   string
	ival  int
	isInt bool
}

type recorder struct {
	events []monEvent
	cors   []corridor // the corridors the spline router logged since the last stage-5 snapshot
}

// what the spline router hands to geom.Shortest for one edge, as logged through the monitor ("rect", "shortest-start",
// "shortest-end" events following a "spline" event)
type corridor struct {
	rects [][4]float64
	s, e  [2]float64
}

var curRec *recorder

func (r *recorder) Log(phase int, alg, key string, val any) {
	if phase == 5 {
		switch v := val.(type) {
		case geom.Rect:
			if key == "rect" && len(r.cors) > 0 {
				k := len(r.cors) - 1
				r.cors[k].rects = append(r.cors[k].rects, [4]float64{v.TL.X, v.TL.Y, v.BR.X, v.BR.Y})
			}
		case geom.P:
			if len(r.cors) > 0 {
				k := len(r.cors) - 1
				if key == "shortest-start" {
					r.cors[k].s = [2]float64{v.X, v.Y}
				} else if key == "shortest-end" {
					r.cors[k].e = [2]float64{v.X, v.Y}
				}
			}
		default:
			if key == "spline" {
				r.cors = append(r.cors, corridor{})
			}
		}
	}
	ev := monEvent{phase: phase, alg: alg, key: key}
	if v, ok := val.(int); ok {
		ev.ival, ev.isInt = v, true
	}
	r.events = append(r.events, ev)
}

// buildOptions translates the case into autog options and the source.
func buildOptions(c *Case, rec *recorder) (graph.EdgeSlice, map[string]graph.Size, []autog.Option) {
	src := make(graph.EdgeSlice, 0, len(c.Edges)+1)
	for _, e := range c.Edges {
		src = append(src, []string{c.name(e[0]), c.name(e[1])})
	}
	if c.Bad == 1 {
		src = append(src, []string{"x", "y", "z"})
	}
	var opts []autog.Option
	switch c.P1 {
	case "greedy":
		opts = append(opts, autog.WithCycleBreaking(autog.CycleBreakingGreedy))
	case "greedyrand":
		opts = append(opts, autog.WithCycleBreaking(autog.CycleBreakingGreedy), autog.WithNonDeterministicGreedyCycleBreaker())
	case "dfs":
		opts = append(opts, autog.WithCycleBreaking(autog.CycleBreakingDepthFirst))
	case "dfsrand":
		// the greedy breaker's node-choice option together with the depth-first breaker: it must be ignored
		opts = append(opts, autog.WithCycleBreaking(autog.CycleBreakingDepthFirst), autog.WithNonDeterministicGreedyCycleBreaker())
	case "randdfs":
		opts = append(opts, autog.WithNonDeterministicGreedyCycleBreaker(), autog.WithCycleBreaking(autog.CycleBreakingDepthFirst))
	case "":
	default:
		harnessErr("case %d: unknown p1 %q", c.Case, c.P1)
	}
	switch c.P2 {
	case "ns":
		opts = append(opts, autog.WithLayering(autog.LayeringNetworkSimplex))
	case "lp":
		opts = append(opts, autog.WithLayering(autog.LayeringLongestPath))
	case "":
	default:
		harnessErr("case %d: unknown p2 %q", c.Case, c.P2)
	}
	switch c.P3 {
	case "wmedian", "":
	case "noop":
		opts = append(opts, autog.WithOrdering(autog.OrderingNoop))
	default:
		harnessErr("case %d: unknown p3 %q", c.Case, c.P3)
	}
	switch c.P4 {
	case "sink":
		opts = append(opts, autog.WithPositioning(autog.PositioningSinkColoring))
	case "valign":
		opts = append(opts, autog.WithPositioning(autog.PositioningVAlign))
	case "pack":
		opts = append(opts, autog.WithPositioning(autog.PositioningPackRight))
	case "nspos":
		opts = append(opts, autog.WithPositioning(autog.PositioningNetworkSimplex))
	case "bk":
		opts = append(opts, autog.WithPositioning(autog.PositioningBrandesKoepf))
	case "bk0", "bk1", "bk2", "bk3":
		opts = append(opts, autog.WithPositioning(autog.PositioningBrandesKoepf), autog.WithBrandesKoepfLayout(int(c.P4[2]-'0')))
	case "":
	default:
		harnessErr("case %d: unknown p4 %q", c.Case, c.P4)
	}
	switch c.P5 {
	case "poly":
		opts = append(opts, autog.WithEdgeRouting(autog.EdgeRoutingPolyline))
	case "straight":
		opts = append(opts, autog.WithEdgeRouting(autog.EdgeRoutingStraight))
	case "ortho":
		opts = append(opts, autog.WithEdgeRouting(autog.EdgeRoutingOrtho))
	case "splines":
		opts = append(opts, autog.WithEdgeRouting(autog.EdgeRoutingSplines))
	case "noop":
		opts = append(opts, autog.WithEdgeRouting(autog.EdgeRoutingNoop))
	case "":
	default:
		harnessErr("case %d: unknown p5 %q", c.Case, c.P5)
	}
	if c.Dup == 1 {
		// decoys first: the same options with other values, overridden by the real ones below
		if c.Ns >= 0 {
			opts = append(opts, autog.WithNodeSpacing(scale(c.Ns+3, c.Sc)))
		}
		if c.Ls >= 0 {
			opts = append(opts, autog.WithLayerSpacing(scale(c.Ls+5, c.Sc)))
		}
		if len(c.Fixed) == 2 {
			opts = append(opts, autog.WithNodeFixedSize(scale(c.Fixed[0]+1, c.Sc), scale(c.Fixed[1]+2, c.Sc)))
		}
		if len(c.Smap) > 0 {
			decoy := map[string]graph.Size{}
			for i := 1; i <= c.N; i += 2 {
				decoy[c.name(i)] = graph.Size{W: scale(3, c.Sc), H: scale(5, c.Sc)}
			}
			decoyMaps[c.Case] = decoy
			opts = append(opts, autog.WithNodeSize(decoy))
		}
		if c.Thor >= 0 {
			opts = append(opts, autog.WithNetworkSimplexThoroughness(uint(c.Thor+2)))
		}
		if c.Virt == 1 {
			opts = append(opts, autog.WithOutputVirtualNodes(false))
		}
	}
	if c.Ns >= 0 {
		ns := scale(c.Ns, c.Sc)
		if c.Nsd > 1 {
			ns /= float64(c.Nsd) // a power of two: NodeSpacing 0.25, 0.5, 1.75 ... stay exact on the 1/64 grid
		}
		opts = append(opts, autog.WithNodeSpacing(ns))
	}
	if c.Ls >= 0 {
		opts = append(opts, autog.WithLayerSpacing(scale(c.Ls, c.Sc)))
	}
	if len(c.Fixed) == 2 {
		opts = append(opts, autog.WithNodeFixedSize(c.size(c.Fixed[0]), c.size(c.Fixed[1])))
	}
	var sizes map[string]graph.Size
	if len(c.Smap) > 0 {
		sizes = map[string]graph.Size{}
		for i, s := range c.Smap {
			if len(s) >= 3 && s[0] == 1 {
				sz := graph.Size{W: c.size(s[1]), H: c.size(s[2])}
				if len(s) >= 5 {
					sz.X, sz.Y = scale(s[3], c.Sc), scale(s[4], c.Sc)
				}
				sizes[c.name(i+1)] = sz
			}
		}
		opts = append(opts, autog.WithNodeSize(sizes))
	}
	if c.Virt == 1 {
		opts = append(opts, autog.WithOutputVirtualNodes(true))
	}
	if c.Bkl > 0 && !strings.HasPrefix(c.P4, "bk") {
		// a forced Brandes-Koepf layout together with another positioner: it must be ignored
		opts = append(opts, autog.WithBrandesKoepfLayout(c.Bkl-1))
	}
	if c.Thor >= 0 {
		opts = append(opts, autog.WithNetworkSimplexThoroughness(uint(c.Thor)))
	}
	if c.Mon == 1 {
		opts = append(opts, autog.WithMonitor(rec))
	}
	if c.Oo == 1 {
		// the same options in reverse order: what an option means must not depend on where it stands in the list
		slices.Reverse(opts)
	}
	return src, sizes, opts
}

type outcome struct {
	layout graph.Layout
	panic  any
	where  string
	wallUs int64
}

func invoke(src graph.Source, opts []autog.Option) (res outcome) {
	t0 := time.Now()
	defer func() {
		res.wallUs = time.Since(t0).Microseconds()
		if p := recover(); p != nil {
			res.panic = p
			res.where = panicSite()
		}
	}()
	res.layout = autog.Layout(src, opts...)
	return
}

// panicSite returns the function (and, after a blank, file:line) of the first frame below the runtime panic machinery.
func panicSite() string {
	pcs := make([]uintptr, 64)
	n := runtime.Callers(3, pcs)
	frames := runtime.CallersFrames(pcs[:n])
	for {
		f, more := frames.Next()
		if f.Function != "" && !hasPrefix(f.Function, "runtime.") && !hasPrefix(f.Function, "main.") {
			return shortFunc(f.Function) + " " + shortFile(f.File) + ":" + strconv.Itoa(f.Line)
		}
		if !more {
			break
		}
	}
	return "?"
}

func shortFunc(f string) string {
	const mod = "github.com/nulab/autog"
	if hasPrefix(f, mod+"/") {
		return f[len(mod)+1:]
	}
	if hasPrefix(f, mod+".") {
		return "autog" + f[len(mod):]
	}
	return f
}

func hasPrefix(s, p string) bool { return len(s) >= len(p) && s[:len(p)] == p }

func shortFile(f string) string {
	// keep the path below the module root
	const marker = "/repo/"
	for i := 0; i+len(marker) <= len(f); i++ {
		if f[i:i+len(marker)] == marker {
			return f[i+len(marker):]
		}
	}
	return f
}

func cmdRun(args []string) {
	fs := flag.NewFlagSet("run", flag.ExitOnError)
	var cm common
	cm.register(fs)
	fs.Parse(args)
	sc, w, done := cm.open()
	defer done()
	installHooks()
	installStageHook()

	idx := 0
	for sc.Scan() {
		line := sc.Bytes()
		if len(line) == 0 {
			continue
		}
		idx++
		if idx <= cm.skip {
			continue
		}
		var c Case
		c.Thor, c.Ns, c.Ls = -1, -1, -1
		if err := json.Unmarshal(line, &c); err != nil {
			harnessErr("bad case line %d: %v", idx, err)
		}
		runCase(&c, w)
	}
	if err := sc.Err(); err != nil {
		harnessErr("reading cases: %v", err)
	}
}

func runCase(c *Case, w writer) {
	rec := &recorder{}
	curRec = rec
	src, sizes, opts := buildOptions(c, rec)
	if c.P1 == "greedyrand" {
		reseed(int64(c.Seed))
	}
	var enc enc
	enc.call(c)
	w.Write(enc.b)
	w.Flush() // the culprit of a process abort is the last Call without completion

	takeNSReports()
	stageOn = c.Stages == 1
	if stageOn {
		stageSnaps, stageComp, stageScale = stageSnaps[:0], 0, c.Sc
		stageIndex = make(map[string]int, c.N)
		for i := 1; i <= c.N; i++ {
			stageIndex[c.name(i)] = i
		}
	}
	if c.BudgetMs > 0 {
		budgetNs.Store(int64(c.BudgetMs) * int64(time.Millisecond) * budgetScale)
	} else {
		budgetNs.Store(defaultBudgetNs)
	}
	curCase.Store(int64(c.Case))
	caseStart.Store(time.Now().UnixNano())
	var source graph.Source = src
	if c.Bad == 2 {
		source = graph.EdgeSlice{}
	}
	res := invoke(source, opts)
	curCase.Store(-1)
	stageOn = false

	enc.b = enc.b[:0]
	if c.Stages == 1 {
		enc.stages(c)
	}
	if res.panic != nil {
		enc.panicRec(c, fmt.Sprint(res.panic), res.where)
	} else {
		enc.ns = takeNSReports()
		enc.ret(c, &res, rec, src, sizes)
	}
	if enc.rangeErr != "" {
		harnessErr("case %d: %s", c.Case, enc.rangeErr)
	}
	w.Write(enc.b)
	if c.Reps > 0 && res.panic == nil {
		repeat(c, w, comparable(enc.b), src, sizes, opts)
	}
}

// comparable strips the timing field, which legitimately differs between runs
func comparable(line []byte) string {
	s := string(line)
	for i := len(s) - 1; i >= 0; i-- {
		if s[i] == ',' && i+5 < len(s) && s[i:i+6] == `,"us":` {
			return s[:i]
		}
	}
	return s
}

// repeat runs the case c.Reps more times in this process (Go randomises map iteration per range statement, so
// repeated runs explore different iteration orders). Logging every repetition would only make the trace longer:
// a repetition is written to the trace - as a rel "same" member of the case's group, to be judged by the
// specification - if its result differs from the first run's (at most three of them) or if it is the last one.
// Every second repetition passes THE SAME source and option values as the first run (what "calling Layout again with
// the same source and options" literally says: an option value that keeps state between calls shows only then); the
// others rebuild them.  With a recording monitor the options are always rebuilt (the recorder is per call).
func repeat(c *Case, w writer, first string, src0 graph.EdgeSlice, sizes0 map[string]graph.Size, opts0 []autog.Option) {
	logged := 0
	for k := 1; k <= c.Reps; k++ {
		cc := *c
		cc.Case = c.Case + (50+k%150)*10000000 // below 2^31 (TLC integers); repetitions are logged one after the other, ids may repeat
		if cc.Rel == "ref" {
			cc.Rel = "same"
		}
		rec := &recorder{}
		var src graph.EdgeSlice
		var sizes map[string]graph.Size
		var opts []autog.Option
		if c.Mon != 1 && k%2 == 1 {
			src, sizes, opts = src0, sizes0, opts0
		} else {
			src, sizes, opts = buildOptions(&cc, rec)
		}
		takeNSReports()
		curCase.Store(int64(c.Case))
		caseStart.Store(time.Now().UnixNano())
		res := invoke(src, opts)
		curCase.Store(-1)
		var e enc
		if res.panic != nil {
			e.panicRec(&cc, fmt.Sprint(res.panic), res.where)
		} else {
			e.ns = takeNSReports()
			e.ret(&cc, &res, rec, src, sizes)
		}
		differs := res.panic != nil || comparable(e.b) != first
		if (differs && logged < 3) || k == c.Reps {
			if differs {
				logged++
			}
			var ce enc
			ce.call(&cc)
			w.Write(ce.b)
			w.Write(e.b)
		}
	}
}

type writer interface {
	Write([]byte) (int, error)
	Flush() error
}

var _ = os.Exit
