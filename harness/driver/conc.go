package main

import (
	"encoding/json"
	"flag"
	"fmt"
	"math/rand"
	"sync"
	"time"
)

// conc: concurrent Layout calls on independent sources (C15). Every case is first run alone (the
// sequential reference, rel "ref"), then G goroutines run all cases at the same time, each in its own order;
// each concurrent result is written as a rel "conc" member of its reference's group, so that the trace
// specification compares it with the sequential result. Built with -race: a data race aborts the process
// with exit code 66 (GORACE), which the orchestration reports as a NoRace violation.
func cmdConc(args []string) {
	fs := flag.NewFlagSet("conc", flag.ExitOnError)
	var cm common
	cm.register(fs)
	gor := fs.Int("g", 8, "goroutines")
	rounds := fs.Int("rounds", 1, "passes over the case list per goroutine")
	seed := fs.Int64("seed", 1, "seed of the per-goroutine orders")
	fs.Parse(args)
	sc, w, done := cm.open()
	defer done()
	var cases []*Case
	for sc.Scan() {
		line := sc.Bytes()
		if len(line) == 0 {
			continue
		}
		c := &Case{}
		c.Thor, c.Ns, c.Ls = -1, -1, -1
		if err := json.Unmarshal(line, c); err != nil {
			harnessErr("bad case: %v", err)
		}
		c.Ex = 1
		cases = append(cases, c)
	}
	type result struct {
		call, ret []byte
	}
	runOne := func(c *Case, id int, rel string) result {
		cc := *c
		cc.Case = id
		cc.Rel = rel
		rec := &recorder{}
		src, sizes, opts := buildOptions(&cc, rec)
		var e enc
		e.call(&cc)
		call := append([]byte(nil), e.b...)
		res := invoke(src, opts)
		e.b = e.b[:0]
		if res.panic != nil {
			e.panicRec(&cc, fmt.Sprint(res.panic), res.where)
		} else {
			e.ret(&cc, &res, rec, src, sizes)
		}
		if e.rangeErr != "" {
			harnessErr("case %d: %s", cc.Case, e.rangeErr)
		}
		return result{call, append([]byte(nil), e.b...)}
	}
	curCase.Store(0)
	caseStart.Store(time.Now().UnixNano())
	refs := make([]result, len(cases))
	for i, c := range cases {
		refs[i] = runOne(c, c.Case, "ref")
	}
	results := make([][]result, len(cases))
	var mu sync.Mutex
	var wg sync.WaitGroup
	start := make(chan struct{})
	for g := 0; g < *gor; g++ {
		wg.Add(1)
		go func(g int) {
			defer wg.Done()
			rnd := rand.New(rand.NewSource(*seed*1000 + int64(g)))
			<-start
			for r := 0; r < *rounds; r++ {
				order := rnd.Perm(len(cases))
				for _, i := range order {
					res := runOne(cases[i], cases[i].Case+(g*(*rounds)+r+1)*10000000, "conc")
					mu.Lock()
					results[i] = append(results[i], res)
					mu.Unlock()
				}
			}
		}(g)
	}
	close(start)
	wg.Wait()
	curCase.Store(-1)
	for i := range cases {
		w.Write(refs[i].call)
		w.Write(refs[i].ret)
		for _, r := range results[i] {
			w.Write(r.call)
			w.Write(r.ret)
		}
	}
}
