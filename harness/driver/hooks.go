package main

// reseed makes the time-seeded RNG of the non-deterministic greedy cycle
// breaker replayable (hook H2, build tag verif).
func reseed(seed int64) {}
