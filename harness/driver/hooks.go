package main

import (
	"sync"

	"github.com/nulab/autog/internal/phase1"
	"github.com/nulab/autog/internal/phase2"
)

// reseed makes the time-seeded RNG of the non-deterministic greedy cycle
// breaker replayable (hook H2, build tag verif).
func reseed(seed int64) {
	s := seed
	phase1.VerifSeed = &s
}

// nsExit collects the network-simplex exit reports of the layering phase (hook H3).
type nsReport struct {
	pivots int
	capped bool // ended on the iteration budget with a negative cut value left
	stuck  bool // ended because no entering edge was found although a negative cut value was left
}

var (
	nsMu      sync.Mutex
	nsReports []nsReport
)

func installHooks() {
	phase2.VerifNSExit = func(balance, pivots, maxitr int, negativeLeft bool) {
		if balance != 1 {
			return // the positioner's run on the auxiliary graph
		}
		nsMu.Lock()
		nsReports = append(nsReports, nsReport{pivots: pivots, capped: negativeLeft && pivots >= maxitr, stuck: negativeLeft && pivots < maxitr})
		nsMu.Unlock()
	}
}

func takeNSReports() []nsReport {
	nsMu.Lock()
	r := nsReports
	nsReports = nil
	nsMu.Unlock()
	return r
}
