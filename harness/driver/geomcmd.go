package main

import (
	"encoding/json"
	"flag"
	"fmt"
	"math"
	"time"

	"github.com/nulab/autog/internal/geom"
)

// GeomCase is one call of geom.Shortest (kind "shortest"), of Shortest+MergeRects+FitSpline
// (kind "fit") or of the cubic solver (kind "solve"). Coordinates are integers divided by Den.
type GeomCase struct {
	Case  int      `json:"case"`
	Kind  string   `json:"kind"`
	Rects [][4]int `json:"rects,omitempty"` // L, T, R, B
	S     [2]int   `json:"s"`
	E     [2]int   `json:"e"`
	Den   int      `json:"den"`
	// solve: coefficients c0..c3 as num/den pairs, expected real roots as num/den pairs
	Coef  [][2]int `json:"coef,omitempty"`
	Roots [][]int  `json:"roots,omitempty"` // num, den, multiplicity
	Tag   string   `json:"tag,omitempty"`
}

func cmdGeom(args []string) {
	fs := flag.NewFlagSet("geom", flag.ExitOnError)
	var cm common
	cm.register(fs)
	fs.Parse(args)
	sc, w, done := cm.open()
	defer done()
	installGeomHooks()
	idx := 0
	for sc.Scan() {
		line := sc.Bytes()
		if len(line) == 0 {
			continue
		}
		idx++
		if idx <= cm.skip {
			continue
		}
		var c GeomCase
		if err := json.Unmarshal(line, &c); err != nil {
			harnessErr("bad geom case line %d: %v", idx, err)
		}
		if c.Den == 0 {
			c.Den = 1
		}
		runGeomCase(&c, w)
	}
}

func (c *GeomCase) f(v int) float64 { return float64(v) / float64(c.Den) }

func (c *GeomCase) rects() []geom.Rect {
	rs := make([]geom.Rect, len(c.Rects))
	for i, r := range c.Rects {
		rs[i] = geom.Rect{TL: geom.P{X: c.f(r[0]), Y: c.f(r[1])}, BR: geom.P{X: c.f(r[2]), Y: c.f(r[3])}}
	}
	return rs
}

type fitEvent struct {
	kind string
	n    int
	ok   bool
	k    int
}

var fitEvents []fitEvent

func installGeomHooks() {
	geom.VerifFit = func(n int, ok bool) { fitEvents = append(fitEvents, fitEvent{kind: "Fit", n: n, ok: ok}) }
	geom.VerifSplit = func(n, k int) { fitEvents = append(fitEvents, fitEvent{kind: "Split", n: n, k: k}) }
}

func runGeomCase(c *GeomCase, w writer) {
	var e enc
	raw, _ := json.Marshal(c)
	e.s(`{"ev":"Call","case":`)
	e.i(c.Case)
	e.s(`,"g":0,"c":`)
	e.b = append(e.b, raw...)
	e.s("}\n")
	w.Write(e.b)
	w.Flush()
	e.b = e.b[:0]

	curCase.Store(int64(c.Case))
	caseStart.Store(time.Now().UnixNano())
	fitEvents = fitEvents[:0]
	var pan any
	var where string
	var path []geom.P
	var pieces [][4]geom.P
	var roots []float64
	var rootsNil bool
	func() {
		defer func() {
			if p := recover(); p != nil {
				pan = p
				where = panicSite()
			}
		}()
		switch c.Kind {
		case "shortest":
			path = geom.Shortest(geom.P{X: c.f(c.S[0]), Y: c.f(c.S[1])}, geom.P{X: c.f(c.E[0]), Y: c.f(c.E[1])}, c.rects())
		case "fit":
			rs := c.rects()
			path = geom.Shortest(geom.P{X: c.f(c.S[0]), Y: c.f(c.S[1])}, geom.P{X: c.f(c.E[0]), Y: c.f(c.E[1])}, rs)
			if len(path) >= 3 {
				fwd := make([]geom.P, len(path))
				for i := range path {
					fwd[len(path)-1-i] = path[i]
				}
				poly := geom.MergeRects(rs)
				pieces = geom.VerifFitSpline(fwd, poly.Sides())
			}
		case "solve":
			co := make([]float64, 4)
			for i := range c.Coef {
				co[i] = float64(c.Coef[i][0]) / float64(c.Coef[i][1])
			}
			roots = geom.VerifSolve3(co)
			rootsNil = roots == nil
		default:
			harnessErr("unknown geom kind %q", c.Kind)
		}
	}()
	curCase.Store(-1)
	if pan != nil {
		e.s(`{"ev":"Panic","case":`)
		e.i(c.Case)
		e.s(`,"g":0,"msg":`)
		e.str(fmt.Sprint(pan))
		e.s(`,"where":`)
		e.str(where)
		e.s("}\n")
		w.Write(e.b)
		return
	}
	e.s(`{"ev":"Return","case":`)
	e.i(c.Case)
	e.s(`,"g":0`)
	switch c.Kind {
	case "shortest", "fit":
		// path points are start/end points or rectangle corners: exact multiples of 1/Den
		e.s(`,"path":[`)
		exact := 1
		for i, p := range path {
			if i > 0 {
				e.s(",")
			}
			x, y := p.X*float64(c.Den), p.Y*float64(c.Den)
			if x != math.Round(x) || y != math.Round(y) || math.Abs(x) > 1<<28 || math.Abs(y) > 1<<28 {
				exact = 0
				x, y = 0, 0
			}
			e.s("[")
			e.i(int(math.Round(x)))
			e.s(",")
			e.i(int(math.Round(y)))
			e.s("]")
		}
		e.s(`],"exact":`)
		e.i(exact)
		// the triangulation the path was computed on (layer-3 state, judged as a diagnostic only)
		e.s(`,"tris":[`)
		for i, t := range geom.Triangulate(c.rects()) {
			if i > 0 {
				e.s(",")
			}
			e.s("[")
			for j, p := range []geom.P{t.A, t.B, t.C} {
				if j > 0 {
					e.s(",")
				}
				e.s("[")
				e.i(int(math.Round(p.X * float64(c.Den))))
				e.s(",")
				e.i(int(math.Round(p.Y * float64(c.Den))))
				e.s("]")
			}
			e.s("]")
		}
		e.s("]")
		// the polygon whose sides are the barriers of the spline fitter (layer-3 state as well)
		e.s(`,"poly":[`)
		for i, p := range geom.MergeRects(c.rects()).Points {
			if i > 0 {
				e.s(",")
			}
			e.s("[")
			e.i(int(math.Round(p.X * float64(c.Den))))
			e.s(",")
			e.i(int(math.Round(p.Y * float64(c.Den))))
			e.s("]")
		}
		e.s("]")
		if c.Kind == "fit" {
			// control points in fixed point: units of 1/(1000*Den)... logged in 1/1000 of the case's integer unit
			e.s(`,"pieces":[`)
			fin := 1
			for i, pc := range pieces {
				if i > 0 {
					e.s(",")
				}
				e.s("[")
				for j, p := range pc {
					if j > 0 {
						e.s(",")
					}
					x, y := p.X*float64(c.Den)*1000, p.Y*float64(c.Den)*1000
					if math.IsNaN(x) || math.IsNaN(y) || math.Abs(x) > 1<<29 || math.Abs(y) > 1<<29 {
						fin = 0
						x, y = 0, 0
					}
					e.s("[")
					e.i(int(math.Round(x)))
					e.s(",")
					e.i(int(math.Round(y)))
					e.s("]")
				}
				e.s("]")
			}
			e.s(`],"fin":`)
			e.i(fin)
			// exact joins: consecutive pieces share their end point bit for bit
			joined := 1
			for i := 1; i < len(pieces); i++ {
				if pieces[i-1][3] != pieces[i][0] {
					joined = 0
				}
			}
			e.s(`,"joined":`)
			e.i(joined)
			e.s(`,"events":[`)
			for i, ev := range fitEvents {
				if i > 0 {
					e.s(",")
				}
				e.s(`{"k":"`)
				e.s(ev.kind)
				e.s(`","n":`)
				e.i(ev.n)
				if ev.kind == "Fit" {
					e.s(`,"ok":`)
					if ev.ok {
						e.s("1")
					} else {
						e.s("0")
					}
				} else {
					e.s(`,"at":`)
					e.i(ev.k)
				}
				e.s("}")
			}
			e.s("]")
		}
	case "solve":
		if geom.VerifSolveUnavailable {
			e.s(`,"nosolve":1`)
		}
		solveResult(&e, c, roots, rootsNil)
	}
	e.s("}\n")
	w.Write(e.b)
}
