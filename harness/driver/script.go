package main

import (
	"encoding/json"
	"flag"
	"fmt"
	"time"

	"github.com/nulab/autog"
	"github.com/nulab/autog/graph"
	imonitor "github.com/nulab/autog/internal/monitor"
)

// ScriptCase is one call history for the monitor life-cycle (C18): a sequence of Layout calls, each with or
// without its own recording monitor, ending normally ("ok"), in the empty-graph panic or in the malformed-edge panic.
type ScriptCase struct {
	Case   int `json:"case"`
	Script []struct {
		Mon   bool     `json:"mon"`
		Kind  string   `json:"kind"`
		Edges [][2]int `json:"edges"`
		// algorithm options of this call ("" = the default): the life-cycle of the monitor must not depend on them
		P1, P2, P4, P5 string
		Sized          bool // fixed node size 6 x 4, NodeSpacing 2, LayerSpacing 4 (the spline router needs positive sizes)
	} `json:"script"`
}

type scriptMon struct {
	id  int
	log *[]scriptEvent
	cur *int
}

type scriptEvent struct{ mon, during int }

func (s scriptMon) Log(phase int, alg, key string, val any) {
	*s.log = append(*s.log, scriptEvent{s.id, *s.cur})
}

func cmdScript(args []string) {
	fs := flag.NewFlagSet("script", flag.ExitOnError)
	var cm common
	cm.register(fs)
	fs.Parse(args)
	sc, w, done := cm.open()
	defer done()
	idx := 0
	for sc.Scan() {
		line := sc.Bytes()
		if len(line) == 0 {
			continue
		}
		idx++
		if idx <= cm.skip {
			continue
		}
		var c ScriptCase
		if err := json.Unmarshal(line, &c); err != nil {
			harnessErr("bad script line %d: %v", idx, err)
		}
		runScript(&c, w)
	}
}

func runScript(c *ScriptCase, w writer) {
	imonitor.VerifForceReset() // every history starts from the initial state of the package
	var e enc
	e.s(`{"ev":"Call","case":`)
	e.i(c.Case)
	e.s(`,"g":0,"n":`)
	e.i(len(c.Script))
	e.s("}\n")
	w.Write(e.b)
	w.Flush()
	curCase.Store(int64(c.Case))
	caseStart.Store(time.Now().UnixNano())
	var events []scriptEvent
	cur := 0
	for k, st := range c.Script {
		cur = k + 1
		var src graph.Source
		switch st.Kind {
		case "ok":
			es := graph.EdgeSlice{}
			for _, ed := range st.Edges {
				es = append(es, []string{fmt.Sprint("n", ed[0]), fmt.Sprint("n", ed[1])})
			}
			src = es
		case "panicEmpty":
			src = graph.EdgeSlice{}
		case "panicBadEdge":
			src = graph.EdgeSlice{{"a", "b"}, {"x", "y", "z"}}
		default:
			harnessErr("unknown script kind %q", st.Kind)
		}
		var opts []autog.Option
		if st.P1 != "" || st.P2 != "" || st.P4 != "" || st.P5 != "" || st.Sized {
			oc := Case{P1: st.P1, P2: st.P2, P4: st.P4, P5: st.P5, Ns: -1, Ls: -1, Thor: -1}
			if st.Sized {
				oc.Ns, oc.Ls, oc.Fixed = 2, 4, []int{6, 4}
			}
			_, _, opts = buildOptions(&oc, &recorder{})
		}
		if st.Mon {
			opts = append(opts, autog.WithMonitor(scriptMon{id: cur, log: &events, cur: &cur}))
		}
		before := len(events)
		res := invoke(src, opts)
		set, ph, alg := imonitor.VerifState()
		e.b = e.b[:0]
		e.s(`{"ev":"Step","case":`)
		e.i(c.Case)
		e.s(`,"g":0,"k":`)
		e.i(cur)
		e.s(`,"mon":`)
		if st.Mon {
			e.s("1")
		} else {
			e.s("0")
		}
		e.s(`,"kind":`)
		e.str(st.Kind)
		e.s(`,"outcome":`)
		if res.panic != nil {
			e.s(`"panic"`)
		} else {
			e.s(`"return"`)
		}
		// which monitors received events while this call was running
		got := map[int]int{}
		for _, ev := range events[before:] {
			got[ev.mon]++
		}
		e.s(`,"got":[`)
		first := true
		for id := 1; id <= len(c.Script); id++ {
			if got[id] > 0 {
				if !first {
					e.s(",")
				}
				first = false
				e.s("[")
				e.i(id)
				e.s(",")
				e.i(got[id])
				e.s("]")
			}
		}
		e.s(`],"mset":`)
		if set {
			e.s("1")
		} else {
			e.s("0")
		}
		e.s(`,"p":`)
		e.i(ph)
		e.s(`,"aset":`)
		if alg != "" {
			e.s("1")
		} else {
			e.s("0")
		}
		e.s("}\n")
		w.Write(e.b)
	}
	curCase.Store(-1)
	e.b = e.b[:0]
	e.s(`{"ev":"Return","case":`)
	e.i(c.Case)
	e.s(`,"g":0}` + "\n")
	w.Write(e.b)
}
