//go:build verif

package monitor

// Read-only view of the package globals for the conformance driver, and a way to put them back into
// the initial state between independent call histories (overlay file, not part of the repository).

func VerifState() (set bool, phase int, alg string) { return m != nil, p, a }

func VerifForceReset() { m, p, a = nil, 0, "" }
