//go:build verif

package geom

// Exported wrappers for the conformance driver (overlay file, not part of the repository).

// false: the root finder is reachable (the fallback shim of a refactored tree says true and solve cases are not judged)
var VerifSolveUnavailable = false

func VerifSolve3(c []float64) []float64 { return solve3(c) }

// VerifFitSpline runs FitSpline with zero end tangents, as phase 5 does, and returns the control points of each piece.
func VerifFitSpline(path []P, barriers []Segment) [][4]P {
	cs := FitSpline(path, P{}, P{}, barriers)
	out := make([][4]P, len(cs))
	for i, c := range cs {
		out[i] = [4]P{c.p0, c.p1, c.p2, c.p3}
	}
	return out
}
