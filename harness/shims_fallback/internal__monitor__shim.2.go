//go:build verif

package monitor

// Last fallback of the monitor shim: nothing of the package's internals is assumed; the state is reported as
// unknown (set = false, phase = -2) and the specification judges only what the monitors received.

func VerifState() (set bool, phase int, alg string) { return false, -2, "" }

func VerifForceReset() { Reset() }
