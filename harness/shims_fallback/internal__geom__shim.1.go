//go:build verif

package geom

// Fallback of the geometry shim for a tree in which the control-point fields or the root finder were renamed: the control
// points are read through the method the spline router itself uses, and the root finder is reached through the only
// exported path that needs it no more - it is reported as unavailable (the driver then logs solve cases as not run).

var VerifSolveUnavailable = true

func VerifSolve3(c []float64) []float64 { return nil }

func VerifFitSpline(path []P, barriers []Segment) [][4]P {
	cs := FitSpline(path, P{}, P{}, barriers)
	out := make([][4]P, len(cs))
	for i, c := range cs {
		s := c.Float64Slice()
		for k := 0; k < 4; k++ {
			out[i][k] = P{s[k][0], s[k][1]}
		}
	}
	return out
}
