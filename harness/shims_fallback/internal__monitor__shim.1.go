//go:build verif

package monitor

// Fallback of the monitor shim for a tree in which the prefix globals p and a no longer exist (the
// internals were refactored): the installed monitor is still visible, the prefix is reported as unknown (-1)
// and the package is put back into its initial state with its own Reset.

func VerifState() (set bool, phase int, alg string) { return m != nil, -1, "" }

func VerifForceReset() { Reset() }
